#!/usr/bin/env python3
"""Runs the quick checks against every confirmed seeded change (in a scratch copy of /repo selected with XGCM_SRC, so
/repo itself is never touched) and records in seeded/<id>/meta.json which checks report a violation.
usage: tools/seed_matrix.py [--only C05-1,...] [--checks own|related|all] [--jobs N]"""
import argparse
import concurrent.futures as cf
import glob
import json
import os
import re
import shutil
import subprocess
import tempfile

ROOT = os.path.dirname(os.path.dirname(os.path.abspath(__file__)))
RELATED = {
    "C01": ["C09", "C02", "C18"], "C02": ["C01", "C06"], "C03": ["C05"], "C04": ["C05", "C01"], "C05": ["C03", "C04", "C12"], "C06": [],
    "C07": [], "C08": [], "C09": ["C01", "C10"], "C10": ["C16"], "C11": ["C20"], "C12": ["C05", "C10", "C14", "C15", "C11"],
    "C13": ["C15", "C14", "C01"], "C14": ["C12"], "C15": ["C11", "C13"], "C16": ["C10"], "C17": [], "C18": ["C04"],
    "C19": ["C01", "C04", "C05"], "C20": ["C01", "C11"],
}
ALL = [f"C{n:02d}" for n in range(1, 21)]


VSEED = None
NOWRITE = False


def run_seed(sid, mode):
    d = os.path.join(ROOT, "seeded", sid)
    meta = json.load(open(os.path.join(d, "meta.json")))
    pid = meta["property"]
    checks = [pid] + ({"own": [], "related": RELATED.get(pid, []), "all": [c for c in ALL if c != pid]}[mode])
    scratch = tempfile.mkdtemp(prefix=f"seedrun_{sid}_")
    try:
        subprocess.check_call(["rsync", "-a", "--exclude", ".git", "/repo/", scratch + "/"])
        p = subprocess.run(["patch", "-p1", "-s", "-d", scratch, "-i", os.path.join(d, "patch.diff")], capture_output=True, text=True)
        if p.returncode != 0:
            return sid, {"error": "patch does not apply to the current /repo: " + (p.stdout + p.stderr)[-300:]}
        res = {}
        for c in checks:
            env = dict(os.environ, XGCM_SRC=scratch, VERIF_SKIP_MC="1")
            if VSEED is not None:
                env["VERIF_SEED"] = str(VSEED)
            q = subprocess.run([os.path.join(ROOT, "check"), c, "--tier", "quick"], capture_output=True, text=True, env=env, cwd=ROOT)
            keys = [f"{k} ({n})" for k, n in re.findall(r"key=(\S+) cases=(\d+)", q.stdout)]
            res[c] = {"exit": q.returncode, "violation_keys": keys[:6], "cases": sum(int(n) for n in re.findall(r"cases=(\d+)", q.stdout))}
        return sid, res
    finally:
        shutil.rmtree(scratch, ignore_errors=True)


def main():
    ap = argparse.ArgumentParser()
    ap.add_argument("--only", default="")
    ap.add_argument("--checks", default="related")
    ap.add_argument("--jobs", type=int, default=3)
    ap.add_argument("--verif-seed", type=int, default=None, help="run the checks under this VERIF_SEED")
    ap.add_argument("--no-write", action="store_true", help="only print, leave the meta.json files alone")
    a = ap.parse_args()
    global VSEED, NOWRITE
    VSEED, NOWRITE = a.verif_seed, a.no_write
    sids = sorted(os.path.basename(os.path.dirname(p)) for p in glob.glob(os.path.join(ROOT, "seeded", "*", "meta.json")))
    if a.only:
        sids = [s for s in sids if s in a.only.split(",")]
    head = subprocess.check_output(["git", "-C", "/repo", "rev-parse", "--short", "HEAD"], text=True).strip()
    with cf.ThreadPoolExecutor(max_workers=a.jobs) as ex:
        for sid, res in ex.map(lambda s: run_seed(s, a.checks), sids):
            mp = os.path.join(ROOT, "seeded", sid, "meta.json")
            meta = json.load(open(mp))
            if "error" in res:
                meta["matrix_error"] = res["error"]
                print(sid, "ERROR", res["error"][:120])
            else:
                meta["caught_by"] = sorted(c for c, r in res.items() if r["exit"] == 1)
                meta["missed_by"] = sorted(c for c, r in res.items() if r["exit"] == 0)
                meta["machinery_failures"] = sorted(c for c, r in res.items() if r["exit"] not in (0, 1))
                meta["checked_at_repo_commit"] = head
                meta["violation_keys"] = {c: r["violation_keys"] for c, r in res.items() if r["exit"] == 1}
                meta["rejected_cases"] = {c: r["cases"] for c, r in res.items() if r["exit"] == 1}
                meta.pop("matrix_error", None)
                print(sid, "caught by", meta["caught_by"], "missed by", meta["missed_by"], "machinery", meta["machinery_failures"],
                      "cases", meta["rejected_cases"])
            if not NOWRITE:
                json.dump(meta, open(mp, "w"), indent=1)


if __name__ == "__main__":
    main()
