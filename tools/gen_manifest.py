#!/usr/bin/env python3
"""Writes /verif/MANIFEST.json from the table below (one entry per claimed property)."""
import json
import os

ROOT = os.path.dirname(os.path.dirname(os.path.abspath(__file__)))
ALL = [f"C{n:02d}" for n in range(1, 21)]

TRUST = ("TLC 1.8 and CommunityModules (Json/IOUtils) evaluate the specification correctly; the drivers' "
         "encoding of real arguments/results into records (harness/model.py) is faithful; small-integer data "
         "stand for all reals under the data-obliviousness assumption of DESIGN 2.3.")

CLAIMED = {
    "C01": dict(
        text=("TLC proves, for every 1-D array of length <= 6 and small 2-D arrays over a 3-value domain, all 8 shifts, "
              "4 operators, 3 rules, that the code's algorithm (pad-width table + forward pair operator) equals the "
              "geometric two-neighbour definition; and every recorded real call (random multi-axis grids plus the "
              "exhaustive one-axis table) is recomputed by the TLA+ trace specification from the geometric definition "
              "(values, dims, order, default shift, rule/fill resolution) and must match exactly."),
        ref="4 C01, 3.1", technique="TLA+ spec (Stencil/GridModel) model-checked with TLC + TLC trace validation of real calls"),
    "C02": dict(
        text=("TLC exhausts a two-step state machine (Construct, Pad) over every spelling of periodic / boundary / "
              "fill_value at constructor and call level for a 2-axis grid (2.4 million states) and checks the code-shaped "
              "dictionary completion against the declarative three-level lookup and the interchangeability of spellings; "
              "every constructor spelling (thorough: all 5104, quick: 1500) and thousands of real pad calls with "
              "asymmetric widths are validated by the TLA+ trace specification (settings per axis; shape grows by exactly "
              "(lo,hi); interior and single-axis halo cells exact; two-axis corner cells up to the order of axes)."),
        ref="4 C02, 3.2", technique="TLA+ state machine (Boundary) model-checked with TLC + TLC trace validation of real constructor and pad calls"),
    "C09": dict(
        text=("TLC proves the running-sum-then-trim/pad table equals the geometric running sum for all 8 shifts, 3 rules "
              "and all small arrays, that diff(outer->center) inverts cumsum(center->outer, fill 0), that two-axis cumsum "
              "commutes unless a non-zero fill is in force (and refutes the unguarded claim), and that the last value on "
              "outer/right targets is the total; real cumsum calls, diff(cumsum) round trips, two-order cumsums and "
              "cumint/integrate pairs with non-uniform metrics are validated by the TLA+ trace specification."),
        ref="4 C09, 3.1", technique="TLA+ spec (Stencil) model-checked with TLC + TLC trace validation of real calls"),
    "C03": dict(
        text=("TLC exhausts all oriented decompositions of a 2x2 block domain (16384, each direction open or periodic, an "
              "element of D4 per face; quick: 2x1) and proves that, whenever the junctions are expressible, the documented "
              "link rule yields exactly the face's window of the undivided domain, that derived tables are reciprocal and "
              "that linked faces see each other symmetrically; real Grid.diff/interp/min/max results on random expressible "
              "decompositions (1x1..3x2, N 2..3, face dim anywhere) are recomputed by the TLA+ trace specification from the "
              "orientations alone (the link table given to xgcm is re-derived and compared, never used as the oracle). Thorough: "
              "Apalache discharges the link rule, the exchange symmetry and reciprocity for an unknown face size N (every "
              "decomposition up to 3x3), and TLC checks the typed copy it works on against FaceTopology.tla."),
        ref="4 C03, 3.3", technique="TLA+ spec (FaceTopology) model-checked with TLC + TLC trace validation of real calls on oriented decompositions"),
    "C04": dict(
        text=("Same topology model as C03. Real diff/interp of one C-grid component along its own axis with "
              "other_component, on rotated (non-reversed) decompositions with left- or right-staggered components, are "
              "validated by the TLA+ trace specification: the value beyond the array end must be what the neighbouring face "
              "stores for the shared edge (same or partner component, sign of the change of direction), found from the "
              "orientations; on grids without face connections the vector form must equal the scalar form, which is itself "
              "validated against the geometric stencil of C01."),
        ref="4 C04, 3.3", technique="TLA+ spec (FaceTopology) + TLC trace validation of real vector calls"),
    "C05": dict(
        text=("The halo rule (depth k from the linked edge, same or mirrored along-edge position, partner and sign for "
              "vectors) is model-checked against the global-window semantics on all 2x2 decompositions; every cell of real "
              "xgcm.padding.pad outputs that lies in the halo of at most one axis is recomputed by the TLA+ trace "
              "specification for planar tables and random reciprocal pairings over 2-6 faces covering all 8 link kinds, "
              "scalar and vector, asymmetric widths 0..min(3,N), every rule on open edges, a third unlinked axis, tables "
              "inserted in any order with Python or numpy flags, earlier calls on the same Grid. Thorough: the link rule for "
              "every face size by Apalache (spec/apalache/FaceHaloInd.tla)."),
        ref="4 C05, 3.3", technique="TLA+ spec (FaceTopology: link rule + per-face assembly) + TLC trace validation of real pad calls"),
    "C17": dict(
        text=("TLC enumerates all 625 two-face one-axis tables as a state machine of single-slot edits and shows the "
              "code-shaped neighbour check accepts exactly the reciprocal ones; every one of those 625 tables plus all "
              "single and sampled double edits of consistent tables, random consistent tables up to 6 faces, two face "
              "dimensions and a missing face dimension are given to the real constructor and the TLA+ trace specification "
              "requires constructed <=> reciprocal over existing faces/axes."),
        ref="4 C17, 3.3", technique="TLA+ predicate Reciprocal model-checked with TLC + TLC trace validation of real constructor outcomes"),
    "C10": dict(
        text=("The selection rule is written in TLA+ as the SET of metrics it allows (exact axis set at the array's position, "
              "else any one interpolated with extension; else any registered partition with the largest first block, each "
              "block at the position or interpolated) and every real get_metric answer on random registries must be a member "
              "(with a warning when interpolated, KeyError when the set is empty, broadcasting dims); integrate, average "
              "(NaN masks, constant fields), derivative and metric_weighted diff/interp/min/max/cumsum on non-uniform integer "
              "metrics with distractor variables at other positions are recomputed by TLC as exact rationals."),
        ref="4 C10, 3.6", technique="TLA+ spec (MetricSelect: nondeterministic selection rule) + TLC trace validation of real get_metric and operator calls"),
    "C16": dict(
        text=("TLC exhausts the registry state machine (2 keys x 2-3 slots x 2 candidate variables, calls of 1-3 variables at "
              "different slots or two variables of one slot, overwrite on/off, 3-4 calls) with a history variable and checks: each slot holds the latest successful "
              "registration, at most one variable per slot, a refusal keeps the refused slot, a batch equals its singles. The "
              "implementation's own reachable registry graph is explored breadth-first (every call from every reached state, "
              "first call also via the constructor) and every transition (registry before, call, outcome, registry after, "
              "get_metric at every slot) must be a step of that state machine."),
        ref="4 C16, 3.6", technique="TLA+ state machine (Metrics) model-checked with TLC + TLC validation of every transition of the implementation's registry graph"),
    "C06": dict(
        text=("A TLA+ state machine of chunking (every composition of the axis, boundary chunks merged into the end chunks, "
              "overlap of depth = boundary width, block tasks in any order, nothing computed before Compute) is exhausted by "
              "TLC for depths (1,0),(0,1),(1,1) and refuted, as expected, for depth 2 over a shorter neighbour chunk; a second "
              "state machine (DaskDispatch) of the per-axis choice of dask mode / overlap wrapper shows the only error is the "
              "refusal the property names; real "
              "calls on dask-backed data (all operators incl. metric-aware ones, user ufuncs with and without map_overlap, "
              "face-connected grids chunked over face and extra dims, scalar and vector) over every composition of the "
              "operated dimension are validated by the TLA+ trace specification: zero graph executions while building, a "
              "dask result, values/dims/coords equal to the in-memory call and, for the stencil operators, to the geometric "
              "definition; chunked inner/outer shifts must raise NotImplementedError."),
        ref="4 C06, 3.4", technique="TLA+ state machine (DaskChunks) model-checked with TLC + TLC trace validation of real dask executions"),
    "C07": dict(
        text=("Overlap weights are specified as exact rationals with the homogeneous-cell choice left open; TLC shows for "
              "every column (n <= 2, thorough 3) with target values and bins in 0..3 (0..4) that the kernel's weights are "
              "admissible, non-negative, conserve every column inside the span and add up under merging of bins, and refutes "
              "the pinned closed-interval rule; the weight matrix of the real kernel and of Grid.transform (target_data on "
              "bounds or centres, several differing columns per call, both bin directions, dask chunking) is recovered with "
              "unit vectors and every row validated by the TLA+ trace specification, with a linearity probe on random data."),
        ref="4 C07, 3.5", note="numba is absent: kernels are executed through the pure-Python guvectorize stand-in in harness/numba_shim (self-checked against upstream's 85 transform tests in setup). " + TRUST,
        technique="TLA+ spec (Conservative) model-checked with TLC + TLC trace validation of real weight matrices"),
    "C08": dict(
        text=("The piecewise-linear interpolant is specified as an exact rational; TLC checks direction independence, passage "
              "through the data, boundedness by the segment ends and the masking rule on all columns of length <= 3; every "
              "recorded column of the real kernel (exhaustive for length 2..3, theta in 0..4, all half-integer levels) and of "
              "Grid.transform (linear and log, bare / 1-D / N-D targets with target_dim, mask_edges, bypass_checks, custom and "
              "default suffix, chunking) is validated by the TLA+ trace specification including the names of the new "
              "dimension and of the result."),
        ref="4 C08, 3.5", note="numba is absent: kernels are executed through the pure-Python guvectorize stand-in in harness/numba_shim. " + TRUST,
        technique="TLA+ spec (LinearInterp) model-checked with TLC + TLC trace validation of real transform calls"),
    "C15": dict(
        text=("The signature language is specified in TLA+ at character level (lexer, grammar, printer, canonical renaming, "
              "must-reject classes); TLC checks on all structures of a small bound and all single-character edits of their "
              "printouts that parse(print(s)) = s, that well-formed texts print back to themselves and that no text is both "
              "well-formed and in a must-reject class; real from_string / str / equivalent / type-hint results for the "
              "exhaustive small structures, thousands of random larger ones, their single-character corruptions and "
              "renaming / merging / position-changing pairs are validated by the TLA+ trace specification with a three-valued "
              "verdict (must accept, must reject, unconstrained); the predefined operator of each of the eight shifts must be "
              "found for any axis name."),
        ref="4 C15, 3.8", technique="TLA+ character-level grammar (Signature) model-checked with TLC + TLC trace validation of the real parser, printer and equivalence"),
    "C11": dict(
        text=("The ufunc protocol is specified in TLA+ (effective option = call over definition over default; dummy names "
              "bound to real axes by order of first appearance; arrival layout = other dims then signature axes in signature "
              "order, padded by the declared widths under the rule in force; outputs on the declared positions of the bound "
              "axes). Every real call - through Grid.apply_as_grid_ufunc, as_grid_ufunc with a string signature and with "
              "Annotated hints, options placed at definition and/or call - is executed with a recording user function and the "
              "TLA+ trace specification recomputes what the function must have received and where the results must live; "
              "inputs on wrong positions and arity mismatches must be rejected."),
        ref="4 C11, 3.7", technique="TLA+ spec (GridUfunc) + TLC trace validation of arguments received by a recording user function"),
    "C14": dict(
        text=("The COMODO (length relative to the centre, shift sign) and SGRID (padding word) decision tables, the convention "
              "hierarchy and the conflict rule are written in TLA+; TLC checks that the COMODO table decodes every admissible "
              "annotation of every position set back to that set, that distinct positions never share an annotation and that "
              "the SGRID table is a bijection; datasets generated from abstract descriptions (1-3 axes, every position subset, "
              "both shift signs, four SGRID topology kinds x four padding words, with/without space, both conventions at once, "
              "user coords given) are parsed by the real Grid(ds) and the TLA+ trace specification derives the prescribed "
              "axes/position->dimension assignment from the description; one operator per parsed grid is validated against the "
              "geometric definition of C01."),
        ref="4 C14, 3.9", technique="TLA+ decision tables (Autoparse) model-checked with TLC + TLC trace validation of real Grid(ds) parses"),
    "C19": dict(
        text=("The coordinate rule (the result carries exactly the grid dataset's coordinates that fit its dimensions - all "
              "with keep_coords, only dimension coordinates without; hence the target position's coordinate on the new "
              "dimension and nothing on the abandoned one; input name kept) is a TLA+ formula; every recorded diff/interp/min/"
              "max/cumsum call on datasets with random 0-D/1-D/2-D coordinates, with and without dimension coordinates, inputs "
              "labelled with the dataset's coordinates, none or foreign labels, is validated by the TLA+ trace specification "
              "(coordinate set, values, attributes, name) and its values against the geometric definition."),
        ref="4 C19, 3.9", technique="TLA+ formula (Coords) + TLC trace validation of real results"),
    "C18": dict(
        text=("The session specification (spec/Xgcm.tla) states that every call except set_metrics leaves the store of "
              "argument objects and the grid's settings unchanged and that an answer is a function of the call and the "
              "registry (TLC: action property Pure, invariant HistoryFree over all histories of <= 4 calls); sessions of real "
              "calls (all ordered pairs of a 27-call catalogue, sampled triples) on ONE set of argument objects are logged "
              "with sha1 digests of every argument object, of the grids' settings and of the result, and a stateful TLA+ trace "
              "specification carries the store across the records of a session: nothing changes between or during calls and "
              "each result equals the call's result as first call on fresh objects, whether it returns or raises."),
        ref="4 C18", technique="TLA+ session state machine (Xgcm) model-checked with TLC + stateful TLC trace validation of real call sessions"),
    "C20": dict(
        text=("The classes of ill-posed requests are TLA+ predicates on the abstract call and grid written from the property "
              "text (spec/Errors.tla); valid calls of C01's corpus are edited once per class, transform requests and grid-ufunc "
              "calls (C11's generator and specification) cover the remaining classes; the TLA+ trace specification classifies "
              "every record itself and rejects any ill-posed request that came back as an array; per-class counts are "
              "reported and a class that was never generated is flagged as vacuous."),
        ref="4 C20, 3.9", technique="TLA+ predicates (Errors) + TLC trace validation of edited real calls"),
    "C12": dict(
        text=("A stateful TLA+ trace specification remembers the first observation of every call and requires each later one "
              "to be identical; the same calls (corner-inclusive pads of face-connected arrays, get_metric with several "
              "admissible partitions, Grid(ds) from parsed metadata incl. axis order, equivalence of renamed multi-name "
              "signatures, multi-axis operators) are executed in K fresh interpreters under different PYTHONHASHSEED values "
              "with the link table and metrics mapping inserted in permuted orders (quick K=4, thorough K=16); the set-iteration "
              "orders actually produced are counted; each corner-inclusive pad must in addition equal the per-face assembly of "
              "spec/FaceTopology.tla for SOME order of the padded axes."),
        ref="4 C12, 3.3", technique="stateful TLC trace validation across interpreters with different hash seeds and table orders + TLA+ assembly model for halo corners"),
    "C13": dict(
        text=("No operator of the specification looks inside a name (names are uninterpreted strings in every module), so C13 "
              "reduces to conformance under renaming: cases of eleven generators are executed with canonical names and under "
              "injective renamings from an adversarial pool (single letters, names containing/contained in position words, "
              "prefixes of each other, case variants, the library's own temporary names, length <= 12); TLC compares the "
              "renamed record, labels mapped back, with the canonical one, and validates pool-named signatures, equivalences, "
              "operator lookups and COMODO/SGRID datasets directly against the (name-agnostic) C15/C14 specifications."),
        ref="4 C13", technique="TLC trace validation of renamed vs canonical executions against name-agnostic TLA+ specifications"),
}

PENDING_REASON = "check not built yet in this session (planned; see DESIGN.md section 9 build order)"


def main():
    checks = []
    for pid in ALL:
        if pid not in CLAIMED:
            continue
        c = CLAIMED[pid]
        checks.append({
            "property_id": pid,
            "quick_cmd": f"./check {pid} --tier quick",
            "thorough_cmd": f"./check {pid} --tier thorough",
            "evidence_file": f"/verif/evidence/{pid}.json",
            "replay_cmd_template": f"./check {pid} --replay {{path}}",
            "engine": "tlc",
            "level_claimed": {"category": c.get("category", "model_checking"), "text": c["text"], "design_ref": c["ref"]},
            "level_note": c.get("note", TRUST),
            "technique": c["technique"],
        })
    na = [{"property_id": p, "reason": PENDING_REASON} for p in ALL if p not in CLAIMED]
    man = {
        "version": 1,
        "setup_cmd": "./setup.sh",
        "hooks": {
            "guard": "XGCM_VERIF_TRACE",
            "enable": "no source hooks: checks observe through the public API; drivers set XGCM_VERIF_TRACE=1 and PYTHONPATH=/repo",
            "baseline_off_cmd": "cd /repo && /venv/bin/python -m pytest -ra -q -p no:cacheprovider --timeout=900 --continue-on-collection-errors",
            "source_commits": [],
            "add_only": True,
        },
        "engines": [{"name": "tlc", "path": "/opt/veriftools/tla/tla2tools.jar",
                     "serves_properties": sorted(CLAIMED), "kind_free_text": "TLA+ explicit-state model checker; also evaluates trace specifications over ndjson records of real executions"},
                    {"name": "apalache", "path": "/usr/local/bin/apalache-mc", "serves_properties": ["C03", "C04", "C05", "C16"],
                     "kind_free_text": "symbolic bounded model checker for TLA+; thorough tiers only: inductive registry invariant (C16) and the halo link rule for an unknown face size (C03/C04/C05); a time-out is recorded as inconclusive"}],
        "checks": checks,
        "not_applicable": na,
        "notes": "All checks: ./check <id> --tier quick|thorough. Known defects of the pinned tree are listed in known_findings.json. ./check X01 (Grid.interp_like against spec/X01Trace.tla) extends the specification beyond the listed properties; it is not a claimed check, prints DEVIATION (never VIOLATION) lines and writes evidence/extras/X01.json.",
    }
    with open(os.path.join(ROOT, "MANIFEST.json"), "w") as f:
        json.dump(man, f, indent=1)
    print("claimed:", sorted(CLAIMED), "pending:", len(na))


if __name__ == "__main__":
    main()
