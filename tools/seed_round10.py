#!/usr/bin/env python3
"""tools/seed_round10.py [ids...]   creates one scratch worktree of /repo per property under /tmp/seed10_<id> and prints
the brief handed to an independent sub-agent (property text only, nothing from /verif).  The numba stand-in is copied to
/tmp/numba_shim (it is a generic replacement for a missing dependency, not verification machinery)."""
import json, os, subprocess, sys, shutil

STEER = """Earlier rounds of this exercise already produced many changes, and ALL of the following kinds are reliably detected,
so do not hand them in again: single-site operator swaps and off-by-ones; wrong defaults; option precedence (call vs grid vs
definition time); argument spellings (scalar vs mapping, partial mappings, list vs tuple, numpy scalars, explicit None);
state memoised between calls on the same Grid; dtypes (integers, float32, mixed); names (substrings of each other, position
words, the code's own temporary names, falsy names); dictionary insertion order and hash seeds; dimensions of length 0 or 1;
widths larger than the dimension; tidy-up 'optimisations' (shortcuts, caches, vectorisation, merged branches, `==` vs `is`,
truthiness vs None).

Look for something DIFFERENT this time. Directions that have not been tried yet (take them as inspiration, not a list to
follow): behaviour that branches on the DATA (NaN / inf / negative zero, equal neighbours, all-zero or constant columns,
already-sorted input, a value equal to the fill value); memory layout (transposed / non-contiguous / Fortran-ordered /
read-only arrays, broadcast views); size or rank thresholds (a path only taken for arrays above some size, with more than k
dimensions, or with more than k axes / faces / registered metrics); arithmetic done in a narrower or different numeric type
on the way; a helper shared by two public entry points that is right for one and subtly wrong for the other; the SECOND and
later element of something usually given once (second output, second vector component, second face dimension position, third
axis); error paths (a broad `except` that falls back to another path; state left half-updated when a call raises and the
caller carries on); objects re-used between two Grids built from the same dataset; xarray-level details (attrs, non-index
and multi-dimensional coordinates, unsorted or duplicate labels, `keep_attrs` / `arithmetic_join` options); the ORDER in which
several legal steps are taken (pad then transpose vs transpose then pad; interpolate metric then multiply vs multiply then
interpolate) where only unusual inputs tell the two apart."""

TEMPLATE = """You are helping test a verification framework for the Python library xgcm (xarray-based staggered-grid operations: diff/interp/padding across face connections/metrics/vertical transforms). Your job is to produce SEEDED DEFECTS: small source changes to xgcm that break the semantic property below while the package still imports and the repository's existing test suite still passes.

Work ONLY in your own git worktree at {wt} (a checkout of the repository). Do NOT modify /repo, do NOT read or touch /verif, do not commit anything.

PROPERTY {id}: {title}
{statement}
It is quantified: {quant}

{steer}

Requirements:
1. The change must need something specific to manifest - a particular combination of features, an unusual-but-legal input, a multi-step call sequence, or two cooperating code sites that each look fine alone - NOT something any ordinary use exposes at once. It must be a realistic change (something a maintainer could plausibly write), in the code implementing the property. Only modify files under xgcm/ that are not under xgcm/test/.
2. The existing tests must still pass with the change. Run: `cd {wt} && PYTHONPATH={wt} /venv/bin/python -m pytest -q -p no:cacheprovider -n 4 xgcm` (3-6 minutes; on the unchanged tree: 4087 passed, 95 skipped, 48 xfailed, 8 xpassed). First verify `cd {wt} && PYTHONPATH={wt} /venv/bin/python -c "import xgcm; print(xgcm.__file__)"` prints a path inside the worktree. numba is not installed, so xgcm/test/test_transform.py is skipped entirely; to import xgcm.transform / call Grid.transform in a demonstration put the pure-Python stand-in /tmp/numba_shim on PYTHONPATH as well (`PYTHONPATH={wt}:/tmp/numba_shim`). There is no network.
3. For each change write a standalone demonstration script (demo1.py, demo2.py, ... in {wt}/), run as `cd {wt} && PYTHONPATH={wt}:/tmp/numba_shim /venv/bin/python demoN.py`, that exits 0 on the unchanged code and exits non-zero (e.g. AssertionError) with the change applied. It must compare xgcm's output with an independent expectation (hand-written numpy or literal numbers), not with xgcm itself. If your demonstration FAILS ON THE UNCHANGED CODE because xgcm already violates the property there, say so prominently in your report (that is valuable too) and pick another change.
4. Save each change as {wt}/patchN.diff produced with `git diff -- xgcm > patchN.diff` from a tree that contains only that change (each patch must apply alone to the clean checkout with `git apply`).
5. Produce 2 different changes (3 if easy), touching different mechanisms of the property.
6. When finished, restore the clean checkout (`git checkout -- xgcm`) and leave only patchN.diff and demoN.py as untracked files.

Final report (plain text): for each patch: the diff, why the existing tests still pass, exactly what is needed for the defect to manifest (one or two sentences), the demo's output with and without the change, and the summary line of the full test run with the change applied."""


def main():
    props = {}
    for line in open("/verif/properties.jsonl"):
        p = json.loads(line)
        props[p["id"]] = p
    ids = sys.argv[1:] or sorted(props)
    if not os.path.isdir("/tmp/numba_shim"):
        shutil.copytree("/verif/harness/numba_shim", "/tmp/numba_shim")
    os.makedirs("/tmp/seed10_prompts", exist_ok=True)
    for i in ids:
        wt = f"/tmp/seed10_{i}"
        if not os.path.isdir(wt):
            subprocess.run(["git", "-C", "/repo", "worktree", "add", "-q", "--detach", wt, "HEAD"], check=True)
        p = props[i]
        txt = TEMPLATE.format(wt=wt, id=i, title=p["title"], statement=p["statement"], quant=p["quantifier"]["text"], steer=STEER)
        open(f"/tmp/seed10_prompts/{i}.txt", "w").write(txt)
        print(i, wt)


if __name__ == "__main__":
    main()
