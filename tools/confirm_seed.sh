#!/bin/sh
# tools/confirm_seed.sh <source dir> <N> <property id> "<needs>"
# Confirms a seeded change in a scratch worktree of /repo (applies, demo passes without / fails with it,
# the repository's suite still passes) and files it under /verif/seeded/<property>-<N>/.
set -u
src="$1"; n="$2"; pid="$3"; needs="${4:-}"
sid="$pid-${5:-$n}"   # optional 5th argument: the number the seed is filed under (rounds >= 10: 101, 102, ...)
wt=$(mktemp -d /tmp/confirm_${sid}_XXXX)
rmdir "$wt"
git -C /repo worktree add -q "$wt" HEAD || exit 2
cleanup() { git -C /repo worktree remove --force "$wt" 2>/dev/null; git -C /repo worktree prune; }
trap cleanup EXIT
shim=/verif/harness/numba_shim
cd "$wt"
cp "$src/demo$n.py" "$wt/demo_seed.py"   # a script's own directory leads sys.path: run it from inside the scratch tree
PYTHONPATH="$wt:$shim" /venv/bin/python "$wt/demo_seed.py" >/tmp/confirm_$sid.clean.log 2>&1; clean_rc=$?
if ! git apply "$src/patch$n.diff"; then echo "$sid: PATCH DOES NOT APPLY"; exit 1; fi
PYTHONPATH="$wt:$shim" /venv/bin/python "$wt/demo_seed.py" >/tmp/confirm_$sid.patched.log 2>&1; patched_rc=$?
PYTHONPATH="$wt" /venv/bin/python -m pytest -q -p no:cacheprovider -n ${NPROC:-8} xgcm >/tmp/confirm_$sid.tests.log 2>&1; tests_rc=$?
summary=$(tail -1 /tmp/confirm_$sid.tests.log)
echo "$sid: demo clean rc=$clean_rc patched rc=$patched_rc tests rc=$tests_rc :: $summary"
if [ "$clean_rc" = 0 ] && [ "$patched_rc" != 0 ] && [ "$tests_rc" = 0 ]; then
  out=/verif/seeded/$sid
  mkdir -p "$out"
  cp "$src/patch$n.diff" "$out/patch.diff"
  cp "$src/demo$n.py" "$out/demo.py"
  /venv/bin/python - "$out" "$pid" "$needs" "$summary" "$(git -C /repo rev-parse --short HEAD)" <<'EOF'
import json, sys
out, pid, needs, summary, head = sys.argv[1:6]
json.dump({"property": pid, "needs": needs,
           "confirmed": {"base_commit": head, "demo_exit_clean": 0, "demo_exit_patched": "non-zero",
                         "suite_with_patch": summary.strip("= \n"),
                         "ran": "tools/confirm_seed.sh: scratch worktree of /repo HEAD; demo before/after git apply; pytest -n 8 xgcm"},
           "caught_by": []}, open(out + "/meta.json", "w"), indent=1)
EOF
  echo "$sid: KEPT"
else
  echo "$sid: REJECTED"
fi
