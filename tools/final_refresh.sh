#!/bin/sh
# tools/final_refresh.sh   re-runs every quick check (seed 0) in /verif against /repo so that the committed evidence
# files belong to the committed machinery, validates MANIFEST.json and every evidence file against their schemas
cd /verif || exit 2
python3 tools/gen_manifest.py >/dev/null || exit 2
rc=0
for p in C01 C02 C03 C04 C05 C06 C07 C08 C09 C10 C11 C12 C13 C14 C15 C16 C17 C18 C19 C20; do
  ./check $p --tier quick > /tmp/final_$p.log 2>&1; r=$?
  tail -1 /tmp/final_$p.log | cut -c1-160
  if [ $r != 0 ] || grep -q "^VIOLATION" /tmp/final_$p.log; then echo "!! $p exit $r"; rc=1; fi
done
python3-vt - <<'PY' || rc=1
import json, jsonschema, glob, sys
jsonschema.validate(json.load(open('/verif/MANIFEST.json')), json.load(open('/root/.vp/MANIFEST.schema.json')))
sch = json.load(open('/root/.vp/EVIDENCE.schema.json'))
for f in sorted(glob.glob('/verif/evidence/C*.json')):
    jsonschema.validate(json.load(open(f)), sch)
print("manifest and", len(glob.glob('/verif/evidence/C*.json')), "evidence files valid")
PY
exit $rc
