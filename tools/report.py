#!/usr/bin/env python3
"""Regenerates DESIGN.md section 10.7 (tables of seeded changes and catalogue mutants vs the checks that catch them)
from seeded/*/meta.json and mutants/results.json."""
import glob
import json
import os
import re

ROOT = os.path.dirname(os.path.dirname(os.path.abspath(__file__)))


def main():
    rows = []
    for mp in sorted(glob.glob(os.path.join(ROOT, "seeded", "*", "meta.json"))):
        sid = os.path.basename(os.path.dirname(mp))
        m = json.load(open(mp))
        caught = ", ".join(m.get("caught_by", [])) or "-"
        if m.get("not_reported"):
            caught = "deliberately not reported (10.5): " + m["not_reported"].split(":", 1)[-1].strip()[:110]
        if m.get("obsolete"):
            caught = "obsolete: " + m["obsolete"][:110]
        rows.append((sid, m.get("needs", ""), caught, ", ".join(m.get("missed_by", [])) or "-",
                     "" if m.get("obsolete") else m.get("matrix_error", "")))
    out = ["### 10.7 Seeded changes and catalogue mutants against the quick checks", "",
           "Confirmed seeded changes (`seeded/<id>/`: `patch.diff`, `demo.py`, `meta.json`). 'caught by' = quick checks that exit 1 with the",
           "change applied to a scratch copy of the current `/repo` (own property plus related ones were tried; 'not affected' lists related",
           "checks that legitimately stay silent because the change does not touch their property).", "",
           "| seed | needs, to manifest | caught by | not affected |", "|---|---|---|---|"]
    for sid, needs, caught, missed, err in rows:
        out.append(f"| {sid} | {needs} | {caught if not err else 'patch no longer applies: ' + err[:40]} | {missed} |")
    res_p = os.path.join(ROOT, "mutants", "results.json")
    if os.path.exists(res_p):
        res = json.load(open(res_p))
        out += ["", f"Catalogue mutants (`tools/mutants.py`, Appendix A as built; run against `/repo` at {res.get('_repo_commit', '?')}):", "",
                "| mutant | property | result | first violation keys |", "|---|---|---|---|"]
        for k, v in sorted(res.items()):
            if isinstance(v, dict):
                out.append(f"| {k} | {v['property']} | {v['status']} | {', '.join(v.get('violation_keys', [])[:2])} |")
    text = "\n".join(out) + "\n"
    p = os.path.join(ROOT, "DESIGN.md")
    s = open(p).read()
    if "### 10.7 " in s:
        s = s[: s.index("### 10.7 ")] + text
    else:
        s = s.rstrip("\n") + "\n\n" + text
    open(p, "w").write(s)
    print(f"{len(rows)} seeds, table written")


if __name__ == "__main__":
    main()
