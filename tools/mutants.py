#!/usr/bin/env python3
"""Binding self-test (DESIGN 2.5 / Appendix A): a catalogue of small source changes, each applied to a scratch copy of
/repo; the quick check of the named property must report a violation. Results go to mutants/results.json.
usage: tools/mutants.py [--only C01] [--jobs N] [--suite]   (--suite also runs the repository's tests on each mutant)"""
import argparse
import concurrent.futures as cf
import json
import os
import re
import shutil
import subprocess
import tempfile

ROOT = os.path.dirname(os.path.dirname(os.path.abspath(__file__)))

# (id, property, file, python regex, replacement, count)   - regexes are applied with re.sub(..., flags=re.S) once
M = [
    ("C01-minmax", "C01", "xgcm/gridops.py", r"(def min_inner_to_center\(a\):\n    return )pairwise_forward_min", r"\1pairwise_forward_max"),
    ("C01-width", "C01", "xgcm/gridops.py", r'(signature="\(X:center\)->\(X:right\)", boundary_width=\{"X": )\(0, 1\)(\}\)\ndef interp_center_to_right)', r"\1(1, 0)\2"),
    ("C01-notranspose", "C01", "xgcm/grid.py", r"return self\._transpose_to_keep_same_dim_order\(data_unpacked, array, axis\)", "return array"),
    ("C01-fallback", "C01", "xgcm/axis.py", r'"center": \("left", "right", "outer", "inner"\)', '"center": ("right", "left", "outer", "inner")'),
    ("C02-default-extend", "C02", "xgcm/grid.py", r'boundary_dict\[ax\] = "fill"', 'boundary_dict[ax] = "extend"'),
    ("C02-precedence", "C02", "xgcm/grid.py", r"user_kwargs = defaults \| user_kwargs", "user_kwargs = user_kwargs | defaults"),
    ("C02-fill-other-axis", "C02", "xgcm/padding.py", r"kwargs = dict\(constant_values=fill_value\[ax\]\)", "kwargs = dict(constant_values=list(fill_value.values())[0])"),
    ("C03-slices-swapped", "C03", "xgcm/padding.py", r"(if reverse:\n\s+source_slice_index = )slice\(-2 \* width, -width\)(\n\s+else:\n\s+source_slice_index = )slice\(width, 2 \* width\)(\n\n\s+target_slice_index = slice\(0, -width\))", r"\1slice(width, 2 * width)\2slice(-2 * width, -width)\3"),
    ("C05-no-tangential-flip", "C05", "xgcm/padding.py", r"if swap_axis and not reverse:\n(\s+)source_slice = source_slice\.isel\(\n\s+\{tangential_dim: slice\(None, None, -1\)\}\n\s+\)", r"if swap_axis and not reverse:\n\1pass"),
    ("C05-trim", "C05", "xgcm/padding.py", r"start = padding_width_expanded\[axname\]\[0\] - padding_width\[axname\]\[0\]\n(\s+)stop = padding_width_expanded\[axname\]\[1\] - padding_width\[axname\]\[1\]", r"start = padding_width_expanded[axname][1] - padding_width[axname][1]\n\1stop = padding_width_expanded[axname][0] - padding_width[axname][0]"),
    ("C05-sign", "C05", "xgcm/padding.py", r"if vectoraxis == axname:\n(\s+# If the input is an orthogonal)", r"if vectoraxis != axname:\n\1"),
    ("C04-partner-skipped", "C04", "xgcm/padding.py", r"source_da = da_partner_prepadded\.isel\(", "source_da = da_prepadded.isel("),
    ("C04-vec2d-partner-sign", "C04", "xgcm/grid.py", r"(y_axis_name,\n\s+other_component=\{x_axis_name: )vector\[x_axis_name\]\}", r"\1-vector[x_axis_name]}"),
    ("C06-vector-not-unpacked", "C06", "xgcm/grid_ufunc.py", r"_maybe_unpack_vector_component\(arg\)\.transpose\(\.\.\., \*in_core_dims\[i\]\)", "arg.transpose(..., *in_core_dims[i])"),
    # (not in the catalogue: `map_overlap = True if funcname != "cumsum"` -> always True is an equivalent mutant, Grid.cumsum
    #  never goes through the dispatcher)
    ("C06-no-merge", "C06", "xgcm/grid_ufunc.py", r"rechunked_arg = padded_arg\.chunk\(merged_boundary_chunks\)", "rechunked_arg = padded_arg"),
    ("C06-merge-wrong-end", "C06", "xgcm/grid_ufunc.py", r"first_chunk_width \+ lower_boundary_width,\n(\s+)\*other_chunks_widths,\n\s+last_chunk_width \+ upper_boundary_width,", r"first_chunk_width + upper_boundary_width,\n\1*other_chunks_widths,\n\1last_chunk_width + lower_boundary_width,"),
    ("C06-disallowed-emptied", "C06", "xgcm/grid_ufunc.py", r'DISALLOWED_OVERLAP_POSITIONS = \["inner", "outer"\]', "DISALLOWED_OVERLAP_POSITIONS = []"),
    ("C06-eager", "C06", "xgcm/padding.py", r"da_padded = da\.copy\(deep=False\)\n", "da_padded = da.copy(deep=False).compute()\n"),
    ("C07-geq", "C07", "xgcm/transform.py", r"if \(theta_hat_1\[j\] > theta_max\)", "if (theta_hat_1[j] >= theta_max)"),
    ("C07-noflip", "C07", "xgcm/transform.py", r"out = out\[\.\.\., ::-1\]", "out = out"),
    ("C07-denominator", "C07", "xgcm/transform.py", r"alpha = \(theta_hat_max - theta_hat_min\) / \(theta_max - theta_min\)", "alpha = (theta_hat_max - theta_hat_min) / (theta_hat_2[j] - theta_hat_1[j])"),
    ("C08-mask-leq", "C08", "xgcm/transform.py", r"if \(theta_lev < theta_min\) or \(theta_lev > theta_max\)", "if (theta_lev <= theta_min) or (theta_lev > theta_max)"),
    ("C08-flip-theta-only", "C08", "xgcm/transform.py", r"theta = theta\[::-1\]\n\s+phi = phi\[::-1\]", "theta = theta[::-1]"),
    ("C09-table-rows", "C09", "xgcm/grid.py", r'(elif \(pos == "center" and ax_to == "outer"\) or \(\n\s+pos == "inner" and ax_to == "center"\n\s+\):\n\s+ax_boundary_width = \{ax\.name: )\(1, 0\)', r"\1(0, 1)"),
    ("C10-issubset-eq", "C10", "xgcm/grid.py", r"(for mv in possible_metrics:\n\s+metric_dims = set\(mv\.dims\)\n\s+if metric_dims)\.issubset\(array_dims\)", r"\1 == array_dims"),
    ("C10-interp-fill", "C10", "xgcm/grid.py", r'metric_vars = self\.interp_like\(mv, array, "extend", None\)', 'metric_vars = self.interp_like(mv, array, "fill", None)'),
    ("C10-derivative-input-metric", "C10", "xgcm/grid.py", r"dx = self\.get_metric\(diff, \(axis,\)\)", "dx = self.get_metric(da, (axis,))"),
    ("C11-definition-wins", "C11", "xgcm/grid_ufunc.py", r'boundary = kwargs\.pop\("boundary", self\.boundary\)', 'boundary = self.boundary if self.boundary is not None else kwargs.pop("boundary", None); kwargs.pop("boundary", None)'),
    ("C11-core-reversed", "C11", "xgcm/grid_ufunc.py", r"(in_core_dims = \[\n\s+)\[grid\.axes\[n\]\.coords\[p\] for n, p in zip\(arg_ns, arg_ps\)\]", r"\1[grid.axes[n].coords[p] for n, p in zip(arg_ns, arg_ps)][::-1]"),
    ("C12-set-iteration", "C12", "xgcm/padding.py", r"pad_axes = \[axname for axname in grid\.axes if axname in pad_axes_wanted\]", "pad_axes = [axname for axname in list(pad_axes_wanted) if axname in grid.axes]"),
    ("C14-padding-table", "C14", "xgcm/sgrid.py", r'"high": "left",\n(\s+)"low": "right",', r'"high": "right",\n\1"low": "left",'),
    ("C14-inner-outer", "C14", "xgcm/comodo.py", r"if clen == axis_len \+ 1:(.*?)elif clen == axis_len - 1:", r"if clen == axis_len - 1:\1elif clen == axis_len + 1:"),
    ("C14-sgrid-only-if-comodo-fails", "C14", "xgcm/metadata_parsers.py", r"    if sgrid\.assert_valid_sgrid\(ds\):\n        ds = ds_sgrid\n        grid_kwargs = grid_kwargs_sgrid", "    if sgrid.assert_valid_sgrid(ds) and not comodo.get_all_axes(ds):\n        ds = ds_sgrid\n        grid_kwargs = grid_kwargs_sgrid"),
    ("C15-juxtaposed", "C15", "xgcm/grid_ufunc.py", r'_ARGUMENT_LIST = f"\{_ARGUMENT\}\(\?:,\{_ARGUMENT\}\)\*"', '_ARGUMENT_LIST = f"{_ARGUMENT}(?:,?{_ARGUMENT})*"'),
    ("C15-equivalent-ignores-positions", "C15", "xgcm/grid_ufunc.py", r"\[\(numbering\.setdefault\(n, len\(numbering\)\), p\) for n, p in zip\(arg_ns, arg_ps\)\]", "[(numbering.setdefault(n, len(numbering)), 0) for n, p in zip(arg_ns, arg_ps)]"),
    ("C16-overwrite-appends", "C16", "xgcm/grid.py", r"self\._metrics\[metric_axes\]\[idx\] = value_new\n(\s+)did_overwrite = True", r"self._metrics[metric_axes].append(value_new)\n\1did_overwrite = True"),
    ("C17-position-not-exchanged", "C17", "xgcm/grid.py", r"correct_position = int\(not position\) if rev else position", "correct_position = position"),
    ("C17-rev-not-compared", "C17", "xgcm/grid.py", r"\(idx_n != fidx\) or \(ax_n != axis\) or \(rev_n != rev\)", "(idx_n != fidx) or (ax_n != axis)"),
    ("C18-no-copy", "C18", "xgcm/grid.py", r"mapped_kwargs = dict\(kwargs\)", "mapped_kwargs = kwargs"),
    ("C19-coords-from-input", "C19", "xgcm/grid_ufunc.py", r"for coord, da_coord in grid\._ds\.coords\.items\(\)\n(\s+)if all\(dim in res\.dims for dim in da_coord\.dims\)", r"for coord, da_coord in grid._ds.coords.items()\n\1if all(dim in res.dims for dim in da_coord.dims) and len(da_coord.dims) < 2"),
    ("C19-keep-coords-inverted", "C19", "xgcm/grid_ufunc.py", r"if not keep_coords:\n(\s+# TODO I don't like)", r"if keep_coords:\n\1"),
    ("C20-metric-op-two-dims", "C20", "xgcm/grid.py", r"(matching_dim = \[di for di in all_dim if di in da\.dims\]\n\s+if len\(matching_dim\)) == 1:", r"\1 >= 1:"),
    # (not in the catalogue, equivalent: dropping the `ax not in self.axes` test of _assign_face_connections or the
    #  `metric_varname not in self._ds.variables` test of set_metrics - the lookups that follow raise KeyError anyway)
    ("C20-same-position-pass", "C20", "xgcm/grid.py", r'raise ValueError\(\n\s+f"From `\{pos\}` to `\{ax_to\}` is not a valid position "\n\s+f"shift for cumsum operation along axis \{ax\}\."\n\s+\)', "ax_boundary_width = {ax.name: (0, 0)}"),
]


def run_one(m, with_suite):
    mid, pid, file, pat, rep = m
    scratch = tempfile.mkdtemp(prefix=f"mutant_{mid}_")
    try:
        subprocess.check_call(["rsync", "-a", "--exclude", ".git", "/repo/", scratch + "/"])
        p = os.path.join(scratch, file)
        s = open(p).read()
        s2, n = re.subn(pat, rep, s, count=1, flags=re.S)
        if n != 1 or s2 == s:
            return mid, {"property": pid, "status": "pattern-not-found"}
        open(p, "w").write(s2)
        res = {"property": pid, "file": file}
        if with_suite:
            q = subprocess.run(["/venv/bin/python", "-m", "pytest", "-q", "-p", "no:cacheprovider", "-n", "6", "xgcm"], cwd=scratch,
                               env=dict(os.environ, PYTHONPATH=scratch), capture_output=True, text=True)
            res["suite"] = q.stdout.strip().splitlines()[-1] if q.stdout.strip() else "?"
        env = dict(os.environ, XGCM_SRC=scratch, VERIF_SKIP_MC="1")
        q = subprocess.run([os.path.join(ROOT, "check"), pid, "--tier", "quick"], capture_output=True, text=True, env=env, cwd=ROOT)
        res["check_exit"] = q.returncode
        res["violation_keys"] = re.findall(r"key=(\S+)", q.stdout)[:5]
        res["status"] = {1: "caught", 0: "missed"}.get(q.returncode, "machinery-failure")
        if q.returncode not in (0, 1):
            res["tail"] = (q.stdout + q.stderr)[-400:]
        return mid, res
    finally:
        shutil.rmtree(scratch, ignore_errors=True)


def main():
    ap = argparse.ArgumentParser()
    ap.add_argument("--only", default="")
    ap.add_argument("--jobs", type=int, default=3)
    ap.add_argument("--suite", action="store_true")
    a = ap.parse_args()
    todo = [m for m in M if not a.only or m[1] in a.only.split(",") or m[0] in a.only.split(",")]
    out_path = os.path.join(ROOT, "mutants", "results.json")
    os.makedirs(os.path.dirname(out_path), exist_ok=True)
    results = json.load(open(out_path)) if os.path.exists(out_path) else {}
    with cf.ThreadPoolExecutor(max_workers=a.jobs) as ex:
        for mid, res in ex.map(lambda m: run_one(m, a.suite), todo):
            prev = results.get(mid, {})
            if "suite" in prev and "suite" not in res:
                res["suite"] = prev["suite"]
            results[mid] = res
            print(mid, res["status"], res.get("violation_keys", [])[:2], res.get("suite", ""))
    results["_repo_commit"] = subprocess.check_output(["git", "-C", "/repo", "rev-parse", "--short", "HEAD"], text=True).strip()
    json.dump(results, open(out_path, "w"), indent=1, sort_keys=True)


if __name__ == "__main__":
    main()
