#!/bin/sh
# tools/mutant.sh '<sed expr>' <file relative to repo> <check args...>
# applies one source edit to a scratch copy of /repo, runs ./check against it, removes the copy
set -e
expr="$1"; file="$2"; shift 2
d=$(mktemp -d /tmp/xgcm_mut_XXXXXX)
rsync -a --exclude .git /repo/ "$d/"
sed -i "$expr" "$d/$file"
if diff -q /repo/$file "$d/$file" >/dev/null; then echo "MUTANT DID NOT CHANGE THE FILE"; rm -rf "$d"; exit 3; fi
diff /repo/$file "$d/$file" | head -8 || true
set +e
XGCM_SRC="$d" /verif/check "$@"
rc=$?
rm -rf "$d"
echo "mutant exit=$rc"
exit $rc
