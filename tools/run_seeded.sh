#!/bin/sh
# tools/run_seeded.sh <patch file> <tier> <check id>...   applies the patch to /repo, runs the checks, restores /repo
patch="$1"; tier="$2"; shift 2
cd /repo || exit 2
if [ -n "$(git status --porcelain -- xgcm)" ]; then echo "/repo has uncommitted changes; refusing"; exit 2; fi
git apply "$patch" || { echo "patch does not apply"; exit 2; }
for id in "$@"; do
  out=$(cd /verif && XGCM_SEEDED_RUN=1 ./check "$id" --tier "$tier" 2>&1); rc=$?
  echo "[$id rc=$rc] $(echo "$out" | grep -c '^VIOLATION') violation line(s): $(echo "$out" | grep 'key=' | head -3 | tr '\n' ';' | cut -c1-300)"
  [ $rc = 2 ] && echo "$out" | tail -5
done
git -C /repo checkout -- .
