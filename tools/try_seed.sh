#!/bin/sh
# tools/try_seed.sh <patch file> <tier> <check id>...   runs checks against a scratch copy of /repo with the patch applied
# (XGCM_SRC), leaving /repo untouched; model checking is skipped (the specification is not what changed)
patch=$(readlink -f "$1"); tier="$2"; shift 2
d=$(mktemp -d /tmp/tryseed_XXXXXX)
rsync -a --exclude .git /repo/ "$d/"
if ! patch -p1 -s -d "$d" -i "$patch"; then echo "patch does not apply"; rm -rf "$d"; exit 2; fi
for id in "$@"; do
  out=$(cd /verif && XGCM_SRC="$d" VERIF_SKIP_MC=1 ./check "$id" --tier "$tier" 2>&1); rc=$?
  echo "[$id rc=$rc] $(echo "$out" | grep -c '^VIOLATION') violation line(s): $(echo "$out" | grep 'key=' | head -3 | tr '\n' ';' | cut -c1-300)"
  [ $rc = 2 ] && echo "$out" | tail -5
done
rm -rf "$d"
