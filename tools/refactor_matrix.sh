#!/bin/sh
# tools/refactor_matrix.sh [jobs]   every quick check against every behaviour-preserving rewrite in refactors/
# (scratch copies of /repo, never /repo itself); writes refactors/results.txt; exit 1 if any check raises an alarm
cd /verif || exit 2
jobs=${1:-3}
ls refactors/*.diff | xargs -P "$jobs" -I{} sh -c 'p={}; b=$(basename $p .diff); tools/try_seed.sh $p quick C01 C02 C03 C04 C05 C06 C07 C08 C09 C10 C11 C12 C13 C14 C15 C16 C17 C18 C19 C20 > /tmp/refmat_$b.log 2>&1'
: > refactors/results.txt
for p in refactors/*.diff; do b=$(basename $p .diff); echo "== $b (repo $(git -C /repo rev-parse --short HEAD), verif $(git rev-parse --short HEAD))" >> refactors/results.txt; cut -c1-200 /tmp/refmat_$b.log >> refactors/results.txt; rm -f /tmp/refmat_$b.log; done
if grep -q "does not apply" refactors/results.txt; then echo "a patch does not apply to the current /repo:"; grep -B1 "does not apply" refactors/results.txt | grep "=="; fi
if grep -q "rc=[12]" refactors/results.txt; then echo "ALARM on a behaviour-preserving rewrite:"; grep -B0 "rc=[12]" refactors/results.txt; exit 1; fi
echo "no alarm: $(grep -c 'rc=0' refactors/results.txt) check runs"
