#!/bin/sh
# usage: tools/confirm_batch.sh <listfile>   lines: <srcdir>|<N>|<pid>|<needs>[|<number to file under>]
while IFS='|' read -r src n pid needs num; do
  [ -z "$src" ] && continue
  NPROC=${NPROC:-6} /verif/tools/confirm_seed.sh "$src" "$n" "$pid" "$needs" ${num:+"$num"}
done < "$1"
