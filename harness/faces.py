"""Face topologies for the drivers: oriented decompositions of a rectangular domain (python twin of
spec/FaceTopology.tla's derivation; the trace specifications re-derive the table, which guards this code),
random reciprocal pairings of edge slots, and conversion to xgcm's face_connections format."""
import itertools
import random

AX = ["a1", "a2"]  # canonical axis tokens: a1 = face-local first axis ("X"), a2 = second ("Y")


def flip(N, c, x):
    return N - 1 - x if c else x


def loc2glob(N, g, i, j):
    s, fx, fy = g
    return flip(N, fx, j if s else i), flip(N, fy, i if s else j)


def axis_dir(g, ax):
    s, fx, fy = g
    if s == 0:
        return (1, -1 if fx else 1) if ax == 1 else (2, -1 if fy else 1)
    return (2, -1 if fy else 1) if ax == 1 else (1, -1 if fx else 1)


def face_no(K, b):
    return b[1] * K[0] + b[0]


def dlink(K, per, orient, b, ax, sd):
    d, sgn = axis_dir(orient[face_no(K, b)], ax)
    step = sgn if sd == 1 else -sgn
    cc = b[d - 1] + step
    inside = 0 <= cc < K[d - 1]
    if not inside and not per[d - 1]:
        return None
    B = list(b)
    B[d - 1] = cc % K[d - 1]
    gB = orient[face_no(K, B)]
    bx = next(x for x in (1, 2) if axis_dir(gB, x)[0] == d)
    sb = axis_dir(gB, bx)[1]
    sideB = 1 if sb == -step else 0
    sta = axis_dir(orient[face_no(K, b)], 3 - ax)[1]
    stb = axis_dir(gB, 3 - bx)[1]
    return {"face": face_no(K, B), "axis": bx, "rev": sd == sideB, "mirrored": sta != stb}


def derive_table(K, per, orient):
    """entries [f, axis token, side, nface, naxis token, rev] and whether the format can express the junctions"""
    entries, expressible = [], True
    for by in range(K[1]):
        for bx in range(K[0]):
            for ax in (1, 2):
                for sd in (0, 1):
                    l = dlink(K, per, orient, (bx, by), ax, sd)
                    if l is None:
                        continue
                    if l["mirrored"] != (l["axis"] != ax and not l["rev"]):
                        expressible = False
                    entries.append([face_no(K, (bx, by)), AX[ax - 1], sd, l["face"], AX[l["axis"] - 1], l["rev"]])
    return entries, expressible


def cut_faces(G, K, N, orient):
    """G[gy][gx] global field -> faces[f][j][i] (j along the face's second axis, i along its first)"""
    faces = []
    for by in range(K[1]):
        for bx in range(K[0]):
            g = orient[face_no(K, (bx, by))]
            fa = [[None] * N for _ in range(N)]
            for j in range(N):
                for i in range(N):
                    px, py = loc2glob(N, g, i, j)
                    fa[j][i] = G[by * N + py][bx * N + px]
            faces.append(fa)
    return faces


def random_orient(rng, nfaces, rotations_only=False):
    if rotations_only:
        # rotations of the square: (s, fx, fy) with determinant +1
        rots = [(0, 0, 0), (1, 1, 0), (0, 1, 1), (1, 0, 1)]
        return [rng.choice(rots) for _ in range(nfaces)]
    return [(rng.randint(0, 1), rng.randint(0, 1), rng.randint(0, 1)) for _ in range(nfaces)]


def random_expressible(rng, shapes=((1, 1), (2, 1), (1, 2), (2, 2), (3, 1), (1, 3), (3, 2)), rotations_only=False,
                       tries=4000):
    for _ in range(tries):
        K = rng.choice(shapes)
        per = (rng.random() < 0.5, rng.random() < 0.5)
        orient = random_orient(rng, K[0] * K[1], rotations_only)
        entries, ok = derive_table(K, per, orient)
        if ok and (not rotations_only or all(not e[5] for e in entries)):
            return K, per, orient, entries
    raise RuntimeError("no expressible decomposition found")


def random_pairing(rng, nfaces, p_link=0.75):
    """random reciprocal table: edge slots (face, axis, side) paired at random; not necessarily planar"""
    slots = [(f, a, sd) for f in range(nfaces) for a in AX for sd in (0, 1)]
    rng.shuffle(slots)
    entries = []
    while len(slots) >= 2:
        s1 = slots.pop()
        if rng.random() > p_link:
            continue
        s2 = slots.pop(rng.randrange(len(slots)))
        rev = s1[2] == s2[2]
        entries.append([s1[0], s1[1], s1[2], s2[0], s2[1], rev])
        entries.append([s2[0], s2[1], s2[2], s1[0], s1[1], rev])
    entries.sort(key=lambda e: (e[0], e[1], e[2]))
    return entries


def link_kinds(entries):
    return {(e[2], e[1] != e[4], bool(e[5])) for e in entries}


def fc_dict(entries, nfaces, facedim, nm=lambda x: x, order=None, npbool=False):
    """entries -> xgcm face_connections. `order`: optional permutation of entry indices fixing dict insertion order
    (of the faces and of the axes within a face); `npbool`: spell the reverse flags as numpy booleans, as a table
    computed with numpy comparisons would"""
    tab = {}
    idx = list(range(len(entries))) if order is None else list(order)
    faces = list(range(nfaces))
    flag = bool
    if npbool:
        import numpy as np

        flag = np.bool_
    for k in idx:
        f, a, sd, nf, na, rev = entries[k]
        tab.setdefault(f, {}).setdefault(nm(a), [None, None])[sd] = (nf, nm(na), flag(rev))
    if all(e[0] in faces for e in entries):
        for f in faces:
            tab.setdefault(f, {})
    return {facedim: {f: {a: tuple(v) for a, v in tab[f].items()} for f in tab}}


APALACHE_FACE_CHECKS = [("HaloOK", True), ("Symmetric", True), ("RecipOK", True),
                        ("HaloOffByOne", False), ("HaloNoMirror", False), ("NoReversedSwap", False)]


def unbounded_face_checks(ctx, eq_cfgs):
    """thorough tiers: the link rule for every face size (Apalache, spec/apalache/FaceHaloInd.tla), and TLC's check
    that the typed definitions Apalache works on equal those of FaceTopology.tla on small instances"""
    ctx.apalache("FaceHaloInd", APALACHE_FACE_CHECKS)
    ctx.mc_many([("MC_FaceHaloEq", f"MC_FaceHaloEq_{c}.cfg", {"workers": 4}) for c in eq_cfgs], parallel=len(eq_cfgs))
