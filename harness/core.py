"""Shared machinery of every check: scratch space, model-check bookkeeping, trace validation by TLC,
classification of rejections against known_findings.json, VIOLATION / KNOWN-FINDING lines, evidence."""
import concurrent.futures as cf
import json
import multiprocessing as mp
import os
import shutil
import signal
import subprocess
import sys
import tempfile
import time
import traceback

from . import tlc

ROOT = os.path.dirname(os.path.dirname(os.path.abspath(__file__)))
# runs against a scratch copy of the repository (mutant self-tests) must not overwrite committed evidence
EVIDENCE_DIR = os.path.join(ROOT, "evidence") if not ("XGCM_SRC" in os.environ or "XGCM_SEEDED_RUN" in os.environ) else os.path.join(
    tempfile.gettempdir(), f"verif_scratch_evidence_{os.getpid()}")
REPLAY_DIR = os.path.join(EVIDENCE_DIR, "replays")
KNOWN = os.path.join(ROOT, "known_findings.json")
PY = "/venv/bin/python"


class Machinery(RuntimeError):
    pass


def repo_path():
    return os.environ.get("XGCM_SRC", "/repo")


def driver_env(extra=None):
    """Environment for subprocesses that import the real xgcm (from /repo's working tree or XGCM_SRC)."""
    e = dict(os.environ)
    shim = os.path.join(ROOT, "harness", "numba_shim")
    e["PYTHONPATH"] = os.pathsep.join([repo_path(), ROOT, shim])
    e["XGCM_VERIF_TRACE"] = "1"
    e.setdefault("PYTHONHASHSEED", "0")
    e["PYTHONWARNINGS"] = "ignore"
    if extra:
        e.update(extra)
    return e


def setup_import_path():
    """In-process equivalent of driver_env for workers forked from the check process."""
    shim = os.path.join(ROOT, "harness", "numba_shim")
    for p in (shim, ROOT, repo_path()):
        if p in sys.path:
            sys.path.remove(p)
        sys.path.insert(0, p)
    import warnings

    warnings.filterwarnings("ignore")
    import xgcm

    src = os.path.realpath(os.path.dirname(os.path.dirname(xgcm.__file__)))
    if src != os.path.realpath(repo_path()):
        raise Machinery(f"xgcm imported from {src}, expected {repo_path()}")


def _worker_init():
    # pool workers: the default SIGTERM action (the pool ends them that way); only the check process itself cleans up
    signal.signal(signal.SIGTERM, signal.SIG_DFL)
    setup_import_path()


class CallTimeout(Exception):
    """a single execution of the implementation exceeded its time limit (e.g. a changed loop that never ends)"""


_TIMEOUTS = mp.Value("i", 0)      # shared with the forked workers: executions that ran into their time limit so far


def _alarm(signum, frame):
    with _TIMEOUTS.get_lock():
        _TIMEOUTS.value += 1
    raise CallTimeout("execution exceeded the per-case time limit")


def _timed_call(args):
    import signal

    fn, item, secs = args
    if _TIMEOUTS.value >= 6:
        # a change that makes calls hang makes many of them hang: after a few full-length time-outs the remaining
        # executions get a short limit, so that the check still ends (and reports them) in reasonable time
        secs = min(secs, 3.0)
    signal.signal(signal.SIGALRM, _alarm)
    # repeating: a driver may swallow the first CallTimeout (e.g. around an earlier, unjudged call) and hang again
    signal.setitimer(signal.ITIMER_REAL, secs, 2.0)
    try:
        return fn(item)
    finally:
        signal.setitimer(signal.ITIMER_REAL, 0)


class Ctx:
    def __init__(self, pid, tier, seed):
        self.pid = pid
        self.tier = tier
        self.seed = seed
        self.t0 = time.time()
        self.scratch = tempfile.mkdtemp(prefix=f"verif_{pid}_")
        self.states = 0
        self.transitions = 0
        self.mc_runs = []
        self.traces = 0
        self.evaluations = 0
        self.samples = []
        self.rejections = []  # dicts: key, what, record
        self.extra = {}
        self.assumptions = []
        self.vacuous = []
        self.nontrivial = set()
        self.tags = {}

    # ---------------------------------------------------------------- model checking
    def mc(self, module, cfg, workers=16, expect_violation=None, timeout=3000, coverage=False, **kw):
        """Run a model-check config. A violated invariant is a violation of the *design* unless it is the
        expected refutation of a deliberately wrong variant (expect_violation names it: non-vacuity check)."""
        if os.environ.get("VERIF_SKIP_MC") and ("XGCM_SRC" in os.environ or "XGCM_SEEDED_RUN" in os.environ):
            # runs against a modified copy of the repository (seeded changes, mutants) exercise the code, not the
            # specification: the model checks would only repeat what the registered run already established
            self.mc_runs.append({"module": module, "cfg": cfg, "skipped": True})
            self.states += 1
            self.transitions += 1
            return None
        r = tlc.run(module, cfg, workers=workers, timeout=timeout, coverage=coverage, **kw)
        entry = {"module": module, "cfg": cfg, "states": r.distinct, "generated": r.generated,
                 "wall_s": round(r.wall, 1), "violated": r.violated}
        if coverage and r.coverage:
            zero = sorted(a for a, (d, t) in r.coverage.items() if t == 0 and a not in ("Init",))
            entry["actions_never_taken"] = zero
            self.vacuous += [f"{module}:{a}" for a in zero]
        self.mc_runs.append(entry)
        self.states += r.distinct
        self.transitions += r.transitions
        if expect_violation:
            if expect_violation not in r.violated:
                raise Machinery(f"{module}/{cfg}: expected TLC to refute {expect_violation} (non-vacuity), it did not")
            entry["expected_refutation"] = expect_violation
        elif r.violated:
            self.reject("spec-invariant:" + ",".join(r.violated),
                        f"TLC refutes {r.violated} in {module}/{cfg}", {"tlc_tail": r.out[-3000:]})
        return r

    def mc_many(self, jobs, parallel=4):
        """several model-check configs side by side: jobs = [(module, cfg, kwargs), ...]"""
        if os.environ.get("VERIF_SKIP_MC") and ("XGCM_SRC" in os.environ or "XGCM_SEEDED_RUN" in os.environ):
            for m, c, kw in jobs:
                self.mc(m, c, **kw)
            return
        with cf.ThreadPoolExecutor(max_workers=parallel) as ex:
            futs = [ex.submit(tlc.run, m, c, workers=kw.get("workers", 4), timeout=kw.get("timeout", 3000)) for m, c, kw in jobs]
            for (m, c, kw), f in zip(jobs, futs):
                r = f.result()
                entry = {"module": m, "cfg": c, "states": r.distinct, "generated": r.generated, "wall_s": round(r.wall, 1),
                         "violated": r.violated}
                self.mc_runs.append(entry)
                self.states += r.distinct
                self.transitions += r.transitions
                if r.violated:
                    self.reject("spec-invariant:" + ",".join(r.violated), f"TLC refutes {r.violated} in {m}/{c}", {"tlc_tail": r.out[-3000:]})

    def apalache(self, module, checks, cinit="CInit", length=0, timeout=900, parallel=3):
        """symbolic checks of spec/apalache/<module>.tla with Apalache: checks = [(invariant, must_hold)]; must_hold
        False = a deliberately wrong statement that has to be refuted (non-vacuity). A time-out is recorded as
        inconclusive (the bounded TLC runs remain the registered evidence); a wrong outcome is a design violation."""
        if os.environ.get("VERIF_SKIP_MC") and ("XGCM_SRC" in os.environ or "XGCM_SEEDED_RUN" in os.environ):
            return
        spec_dir = os.path.join(ROOT, "spec", "apalache")

        def one(job):
            inv, must_hold = job
            out = tempfile.mkdtemp(prefix="apalache_")
            t0 = time.time()
            try:
                p = subprocess.run(["apalache-mc", "check", f"--cinit={cinit}", f"--inv={inv}", f"--length={length}",
                                    f"--out-dir={out}", module + ".tla"], cwd=spec_dir, capture_output=True, text=True, timeout=timeout)
                ok = "EXITCODE: OK" in p.stdout
                bad = "The outcome is: Error" in p.stdout
                res = "holds" if ok else ("refuted" if bad else "error")
                tail = p.stdout[-1500:]
            except subprocess.TimeoutExpired:
                res, tail = "timeout (inconclusive)", ""
            finally:
                shutil.rmtree(out, ignore_errors=True)
            return inv, must_hold, res, round(time.time() - t0, 1), tail

        results = {}
        with cf.ThreadPoolExecutor(max_workers=parallel) as ex:
            for inv, must_hold, res, wall, tail in ex.map(one, checks):
                results[inv] = {"expected": "holds" if must_hold else "refuted", "result": res, "wall_s": wall}
                if res == "error":
                    raise Machinery(f"Apalache failed on {module}/{inv}: {tail[-600:]}")
                if res in ("holds", "refuted") and res != results[inv]["expected"]:
                    if must_hold:
                        self.reject("spec-invariant:apalache-" + inv, f"Apalache refutes {inv} of {module}", {"tail": tail})
                    else:
                        raise Machinery(f"{module}: expected Apalache to refute {inv} (non-vacuity), it did not")
        self.extra.setdefault("apalache", {})[module] = results

    # ---------------------------------------------------------------- trace validation
    def validate(self, module, records, cfg=None, chunk=800, jvms=8, xss="256m", env=None, timeout=3000):
        """Hand records (dicts with an integer 'id') to the trace spec `module`; returns {id: [clauses]} for
        the records the specification rejects. Every record must be consumed, else machinery failure."""
        if not records:
            return {}
        cfg = cfg or module + ".cfg"
        chunks = [records[i:i + chunk] for i in range(0, len(records), chunk)]
        files = []
        for k, ch in enumerate(chunks):
            fn = os.path.join(self.scratch, f"{module}_{len(os.listdir(self.scratch))}_{k}.ndjson")
            with open(fn, "w") as f:
                for r in ch:
                    f.write(json.dumps(r, separators=(",", ":")) + "\n")
            files.append((fn, len(ch)))

        def one(job):
            fn, n = job
            e = {"TRACE_FILE": fn}
            if env:
                e.update(env)
            r = tlc.run(module, cfg, workers=1, env=e, xss=xss, timeout=timeout)
            if r.violated:
                raise Machinery(f"trace spec {module} reports invariant violation {r.violated}:\n{r.out[-2000:]}")
            if r.distinct != n + 1:
                raise Machinery(f"trace spec {module} consumed {r.distinct - 1} of {n} records:\n{r.out[-3000:]}")
            bad = {}
            for p in r.printed:
                if p and p[0] == "V":
                    bad.setdefault(p[1], []).append(str(p[2]))
                elif p and len(p) >= 3 and isinstance(p[0], str) and len(p[0]) == 1:
                    # other one-letter tags are observations the trace specification reports (e.g. the class of a record)
                    self.tags.setdefault(p[0], {}).setdefault(p[1], []).append(p[2])
            return bad, r

        bad = {}
        with cf.ThreadPoolExecutor(max_workers=jvms) as ex:
            for b, r in ex.map(one, files):
                bad.update(b)
                self.states += r.distinct
                self.transitions += r.transitions
        self.traces += len(records)
        return bad

    def selftest_corrupt(self, module, records, bad, corrupt=None, per_kind=3, kind=lambda r: r.get("ev"), **kw):
        """Binding self-test: alter one observed field of a few accepted records; the trace specification must
        reject every altered record (otherwise the clause is vacuous: machinery failure)."""
        import copy

        def default_corrupt(r):
            for fld in ("out", "out2", "integ"):
                o = r.get(fld)
                if isinstance(o, dict) and o.get("k") == "array" and o.get("flat"):
                    v = o["flat"][-1]
                    o["flat"][-1] = (v + 1) if isinstance(v, int) else 0
                    return True
            return False

        corrupt = corrupt or default_corrupt
        picked, seen = [], {}
        for r in records:
            k = kind(r)
            if r["id"] in bad or seen.get(k, 0) >= per_kind:
                continue
            c = copy.deepcopy(r)
            if corrupt(c):
                seen[k] = seen.get(k, 0) + 1
                picked.append(c)
        if not picked:
            return
        traces_before = self.traces
        rej = self.validate(module, picked, **kw)
        self.traces = traces_before  # altered records are not executions of the implementation
        missed = [c["id"] for c in picked if c["id"] not in rej]
        self.extra.setdefault("corrupt_trace_selftest", []).append(
            {"module": module, "altered": len(picked), "rejected": len(picked) - len(missed), "kinds": {str(k): v for k, v in seen.items()}})
        if len(missed) == len(picked) and not self.rejections:
            # not one altered record was rejected: the specification does not constrain what the code returned
            raise Machinery(f"corrupt-trace self-test: {module} accepted every altered record {missed[:5]}")
        if missed:
            # an altered record can still be one the specification admits (it leaves choices open: several admissible
            # metrics, unconstrained corner cells, requests it does not judge) - reported, not fatal; on a tree that
            # already shows violations the self-test is inconclusive anyway
            self.extra["corrupt_trace_selftest"][-1]["altered_but_still_admissible"] = missed[:5]

    # ---------------------------------------------------------------- bookkeeping
    def reject(self, key, what, record):
        self.rejections.append({"key": key, "what": what, "record": record})

    def sample(self, x, limit=4):
        if len(self.samples) < limit:
            self.samples.append(x)

    def pmap(self, fn, items, procs=16, chunksize=8, limit=None):
        """Run fn over items in forked worker processes importing the real xgcm. Each item has a time limit: a case
        that never returns raises CallTimeout inside fn (drivers record it as the call's outcome)."""
        items = list(items)
        if not items:
            return []
        if limit is None:
            limit = 120.0 if self.tier == "thorough" else 40.0
        procs = int(os.environ.get("VERIF_PROCS", procs))          # VERIF_PROCS=1: in-process (line-coverage measurements)
        if procs <= 1 or len(items) < 4:
            setup_import_path()
            return [_timed_call((fn, x, limit)) for x in items]
        # import the implementation in this process first: a tree that does not import must end the check at once
        # (a pool whose initializer raises would respawn its workers for ever)
        try:
            setup_import_path()
        except Machinery:
            raise
        except BaseException as ex:
            raise Machinery(f"the implementation under test does not import: {type(ex).__name__}: {ex}")
        with mp.get_context("fork").Pool(procs, initializer=_worker_init) as pool:
            res = pool.map_async(_timed_call, [(fn, x, limit) for x in items], chunksize=chunksize)
            # every item has its own time limit; this outer limit only ends a run whose worker is blocked where no
            # Python-level signal handler can run (the with-block then terminates the pool)
            try:
                return res.get(timeout=max(900.0, 3.0 * limit * len(items) / max(1, procs)) if self.tier != "thorough" else 6 * 3600.0)
            except mp.TimeoutError:
                raise Machinery("a worker executing the implementation did not return within the overall time limit")

    def cleanup(self):
        shutil.rmtree(self.scratch, ignore_errors=True)


def load_known():
    if not os.path.exists(KNOWN):
        return {"findings": [], "fixed": []}
    with open(KNOWN) as f:
        return json.load(f)


def finish(ctx, level="model_checking", rule="", exhaustive=False):
    """Print KNOWN-FINDING / VIOLATION lines, write evidence, return exit code."""
    known = {(k["property"], k["key"]): k for k in load_known().get("findings", [])}
    # ids starting with X are extensions of the specification beyond the listed properties (not in MANIFEST.json): their
    # deviations are reported as DEVIATION lines and their evidence is kept apart from the properties' evidence
    is_extra = ctx.pid.upper().startswith("X")
    evdir = os.path.join(EVIDENCE_DIR, "extras") if is_extra else EVIDENCE_DIR
    by_key = {}
    for r in ctx.rejections:
        by_key.setdefault(r["key"], []).append(r)
    nviol = 0
    known_hit = []
    shutil.rmtree(os.path.join(REPLAY_DIR, ctx.pid), ignore_errors=True)
    os.makedirs(os.path.join(REPLAY_DIR, ctx.pid), exist_ok=True)
    for key, rs in sorted(by_key.items()):
        if (ctx.pid, key) in known:
            print(f"KNOWN-FINDING: property={ctx.pid} {key}: {known[(ctx.pid, key)]['what']} ({len(rs)} case(s))")
            known_hit.append({"key": key, "cases": len(rs)})
            continue
        nviol += len(rs)
        safe = "".join(ch if ch.isalnum() or ch in "-_." else "_" for ch in key)[:80]
        path = os.path.join(REPLAY_DIR, ctx.pid, f"{safe}.json")
        with open(path, "w") as f:
            json.dump({"property": ctx.pid, "key": key, "what": rs[0]["what"], "count": len(rs),
                       "cases": [r["record"] for r in rs[:5]]}, f, indent=1, default=str)
        print(f"DEVIATION extra={ctx.pid} replay={path}" if is_extra else f"VIOLATION property={ctx.pid} replay={path}")
        print(f"  key={key} cases={len(rs)} what={rs[0]['what']}")
    cov = {
        "states": ctx.states,
        "transitions": ctx.transitions,
        "traces_validated_against_impl": ctx.traces,
        "samples": ctx.samples or ["(no sample recorded)"],
        "evaluations": max(ctx.evaluations, ctx.traces),
        "distinct_nontrivial": len(ctx.nontrivial),
        "rule": rule,
        "exhaustive": exhaustive,
        "model_check_runs": ctx.mc_runs,
        "known_findings_hit": known_hit,
        "vacuous_actions": ctx.vacuous,
    }
    cov.update(ctx.extra)
    ev = {
        "property_id": ctx.pid,
        "tier": ctx.tier,
        "seed": ctx.seed,
        "level": level,
        "coverage": cov,
        "assumptions": ctx.assumptions,
        "wall_s": round(time.time() - ctx.t0, 1),
        "violations": nviol,
    }
    os.makedirs(evdir, exist_ok=True)
    with open(os.path.join(evdir, f"{ctx.pid}.json"), "w") as f:
        json.dump(ev, f, indent=1, default=str)
    print(f"{ctx.pid} tier={ctx.tier} seed={ctx.seed}: states={ctx.states} traces={ctx.traces} "
          f"evaluations={cov['evaluations']} violations={nviol} known={len(known_hit)} wall={ev['wall_s']}s")
    return 1 if nviol else 0


def main(argv=None):
    import argparse
    import importlib

    ap = argparse.ArgumentParser()
    ap.add_argument("pid")
    ap.add_argument("--tier", default=os.environ.get("VERIF_TIER", "quick"), choices=["quick", "thorough"])
    ap.add_argument("--seed", type=int, default=int(os.environ.get("VERIF_SEED", "0")))
    ap.add_argument("--replay", default=None)
    a = ap.parse_args(argv)
    if a.replay:
        # a replay re-judges a handful of recorded cases: it must not replace the evidence of the registered runs
        global EVIDENCE_DIR, REPLAY_DIR
        EVIDENCE_DIR = os.path.join(tempfile.gettempdir(), f"verif_scratch_evidence_{os.getpid()}")
        REPLAY_DIR = os.path.join(EVIDENCE_DIR, "replays")
    mod = importlib.import_module(f"harness.props.{a.pid.lower()}")
    ctx = Ctx(a.pid, a.tier, a.seed)

    def _terminated(signum, frame):
        # a check ended from outside (time limit) must not leave its scratch directory (traces) behind
        ctx.cleanup()
        os._exit(2)

    main_pid = os.getpid()
    signal.signal(signal.SIGTERM, lambda s, f: _terminated(s, f) if os.getpid() == main_pid else os._exit(1))
    # (forked pool workers reset this to the default action in _worker_init)
    try:
        if a.replay:
            with open(a.replay) as f:
                rp = json.load(f)
            setup_import_path()      # replays execute in this process: import xgcm from the tree under test
            mod.replay(ctx, rp)
        else:
            mod.run(ctx)
        code = finish(ctx, level=getattr(mod, "LEVEL", "model_checking"), rule=getattr(mod, "RULE", ""),
                      exhaustive=bool(ctx.extra.pop("exhaustive", False)))
    except (tlc.TlcError, Machinery) as ex:
        print(f"MACHINERY-FAILURE property={a.pid}: {ex}", file=sys.stderr)
        code = 2
    except Exception:
        traceback.print_exc()
        print(f"MACHINERY-FAILURE property={a.pid}: unexpected exception", file=sys.stderr)
        code = 2
    finally:
        ctx.cleanup()
    return code
