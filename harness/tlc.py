"""Thin TLC runner: one JVM per call, output parsed for counts, invariant violations and PrintT tuples."""
import os
import re
import shutil
import subprocess
import tempfile
import time

SPEC_DIR = os.path.join(os.path.dirname(os.path.dirname(os.path.abspath(__file__))), "spec")
JAR = "/opt/veriftools/tla/tla2tools.jar"
DEPS = "/opt/veriftools/tla/CommunityModules-deps.jar"


class TlcError(RuntimeError):
    """TLC itself failed (parse error, evaluation error, crash): machinery failure, never a pass."""


class TlcResult:
    def __init__(self, out, wall):
        self.out = out
        self.wall = wall
        m = re.search(r"(\d+) states generated, (\d+) distinct states found", out)
        self.generated = int(m.group(1)) if m else 0
        self.distinct = int(m.group(2)) if m else 0
        self.violated = re.findall(r"Error: Invariant (\w+) is violated", out)
        self.violated += re.findall(r"Error: Action property (\w+) is violated", out)
        if "Temporal properties were violated" in out:
            self.violated.append("temporal")
        self.completed = "Model checking completed. No error has been found." in out or (
            "Finished in" in out and not self.violated and "Error:" not in out
        )
        self.printed = parse_printed(out)
        self.coverage = parse_coverage(out)

    @property
    def transitions(self):
        # every generated state beyond the initial ones was produced by taking one transition
        return max(self.generated, 1)


def parse_printed(out):
    """PrintT tuples of the form <<"TAG", v1, v2, ...>> printed on one line -> list of python lists."""
    res = []
    for line in out.splitlines():
        line = line.strip()
        if line.startswith('<<"') and line.endswith(">>"):
            body = line[2:-2]
            parts, cur, depth, instr = [], "", 0, False
            for ch in body:
                if ch == '"':
                    instr = not instr
                    cur += ch
                elif instr:
                    cur += ch
                elif ch in "<[({":
                    depth += 1
                    cur += ch
                elif ch in ">])}":
                    depth -= 1
                    cur += ch
                elif ch == "," and depth == 0:
                    parts.append(cur.strip())
                    cur = ""
                else:
                    cur += ch
            if cur.strip():
                parts.append(cur.strip())
            vals = []
            for p in parts:
                if p.startswith('"') and p.endswith('"'):
                    vals.append(p[1:-1])
                elif re.fullmatch(r"-?\d+", p):
                    vals.append(int(p))
                elif p in ("TRUE", "FALSE"):
                    vals.append(p == "TRUE")
                else:
                    vals.append(p)
            res.append(vals)
    return res


def parse_coverage(out):
    """-coverage output: action name -> (distinct, total) from lines '<Name line ..., col ... of module M>: d:t'."""
    cov = {}
    for m in re.finditer(r"^<(\w+) line \d+, col \d+ to line \d+, col \d+ of module (\w+)>: (\d+):(\d+)", out, re.M):
        cov[m.group(1)] = (int(m.group(3)), int(m.group(4)))
    return cov


def run(module, cfg=None, workers=16, env=None, timeout=3600, xss="256m", xmx=None, coverage=False,
        simulate=None, depth=None, seed=None, extra=None, cwd=None, dump=None):
    """Run TLC on spec/<module>.tla with spec/<cfg>. Raises TlcError on machinery failure."""
    cwd = cwd or SPEC_DIR
    meta = tempfile.mkdtemp(prefix="tlcmeta_")
    cmd = ["java", "-XX:+UseParallelGC", f"-Xss{xss}", f"-Djava.io.tmpdir={meta}"]     # TLC's own tlc-* scratch goes with the metadir
    if xmx:
        cmd.append(f"-Xmx{xmx}")
    cmd += ["-cp", f"{JAR}:{DEPS}", "tlc2.TLC", "-workers", str(workers), "-metadir", meta, "-noGenerateSpecTE"]
    if cfg:
        cmd += ["-config", cfg]
    if coverage:
        cmd += ["-coverage", "1"]
    if simulate:
        cmd += ["-simulate", simulate]
    if depth:
        cmd += ["-depth", str(depth)]
    if seed is not None:
        cmd += ["-seed", str(seed)]
    if dump:
        cmd += ["-dump"] + dump
    if extra:
        cmd += extra
    cmd.append(module)
    e = dict(os.environ)
    if env:
        e.update(env)
    t0 = time.time()
    try:
        p = subprocess.run(cmd, cwd=cwd, env=e, stdout=subprocess.PIPE, stderr=subprocess.STDOUT, text=True,
                           timeout=timeout)
    except subprocess.TimeoutExpired as ex:
        raise TlcError(f"TLC timed out after {timeout}s on {module}: {(ex.stdout or '')[-2000:]}")
    finally:
        shutil.rmtree(meta, ignore_errors=True)
    out = p.stdout
    res = TlcResult(out, time.time() - t0)
    if res.violated:
        return res
    if not res.completed or "Error:" in out or "Parsing or semantic analysis failed" in out:
        k = out.find("Error:")
        raise TlcError(f"TLC failed on {module} ({cfg}):\n{out[max(0, k - 200):k + 2500] if k >= 0 else out[-4000:]}")
    return res
