"""Abstract (JSON-able) descriptions of grids, arrays and call arguments, and their realisation with the
real xarray / xgcm objects. Names in the abstract descriptions are canonical tokens (a1, d1, v1); the
`names` mapping of a grid gives the real identifier for each token (identity when absent)."""
import math
from fractions import Fraction

NONE = {"k": "none"}
POS = ["center", "left", "right", "inner", "outer"]
FACE = ["left", "right", "inner", "outer"]
SHIFTS = [("center", p) for p in FACE] + [(p, "center") for p in FACE]


def S(v):
    return {"k": "s", "v": v}


def M(pairs):
    return {"k": "m", "v": [list(p) for p in pairs]}


def plen(p, n):
    return {"center": n, "left": n, "right": n, "inner": n - 1, "outer": n + 1}[p]


class Names:
    def __init__(self, mapping=None):
        self.m = dict(mapping or {})

    def __call__(self, tok):
        return self.m.get(tok, tok)

    def inv(self):
        return {v: k for k, v in self.m.items()}


def to_py(t, names=None, keyfn=None):
    """tagged value -> python value (None / scalar / dict)"""
    nm = names or Names()
    if t is None or t["k"] == "none":
        return None
    if t["k"] in ("s", "b"):
        return t["v"]
    if t["k"] == "l":
        return [nm(x) for x in t["v"]]
    if t["k"] == "m":
        return {nm(k): v for k, v in t["v"]}
    raise ValueError(t)


def build_dataset(grid):
    """xarray.Dataset holding every dimension of the abstract grid (with integer dimension coordinates)."""
    import numpy as np
    import xarray as xr

    nm = Names(grid.get("names"))
    coords = {}
    how = grid.get("coordvals", "regular")
    for ax in grid["axes"]:
        for p, d in ax["pos"]:
            L = plen(p, ax["n"])
            base = {"center": 1, "left": 0, "right": 2, "inner": 2, "outer": 0}[p]
            vals = np.arange(L) * 2.0 + base
            if how == "decreasing":
                vals = -vals                                   # labels decrease along the dimension
            elif how == "irregular":
                vals = vals ** 2 + 0.25 * (np.arange(L) % 3)   # unevenly spaced, still strictly increasing
            elif how == "unsorted":
                vals = (vals * 7) % (2 * L + 3) + 0.001 * np.arange(L)   # distinct labels in no order at all
            coords[nm(d)] = (nm(d), vals)
    for d, L in grid.get("extra", []):
        coords[nm(d)] = (nm(d), np.arange(L) * 1.0)
    if grid.get("faces"):
        d, L = grid["faces"]["dim"], grid["faces"]["n"]
        # the faces' labels are 0..n-1 in the records; the dataset may list them in another order (the table of
        # connections speaks of PLACES along the face dimension; the labels of the input play no role)
        coords[nm(d)] = (nm(d), np.arange(L)[::-1] if grid["faces"].get("labels") == "reversed" else np.arange(L))
    return xr.Dataset(coords=coords)


def grid_kwargs(grid):
    nm = Names(grid.get("names"))
    ctor = grid.get("ctor", {})
    kw = {"coords": {nm(ax["name"]): {p: nm(d) for p, d in ax["pos"]} for ax in grid["axes"]},
          "autoparse_metadata": False}
    if "periodic" in ctor:
        kw["periodic"] = to_py(ctor["periodic"], nm)
    for k in ("boundary", "fill_value"):
        if k in ctor and ctor[k]["k"] != "none":
            kw[k] = to_py(ctor[k], nm)
    if grid.get("fill_den", 1) != 1 and "fill_value" in kw:
        # records that hold den x the real values hold den x the real fill values as well
        fv = kw["fill_value"]
        kw["fill_value"] = {a: v / grid["fill_den"] for a, v in fv.items()} if isinstance(fv, dict) else fv / grid["fill_den"]
    ds_ = ctor.get("default_shifts")
    if ds_ and ds_["k"] == "m":
        # axes given equal tables are given the very same mapping object (a user's `shifts = {...}` used for both)
        shared = {}
        kw["default_shifts"] = {nm(a): shared.setdefault(repr(sorted(map(tuple, pairs))), {f: t for f, t in pairs}) for a, pairs in ds_["v"]}
    if grid.get("faces"):
        from .faces import fc_dict

        fcs = grid["faces"]
        kw["face_connections"] = fc_dict(fcs["table"], fcs["n"], nm(fcs["dim"]), nm, order=fcs.get("order"), npbool=bool(fcs.get("npbool")))
    return kw


def make_grid(grid, ds=None, **extra):
    import xgcm

    ds = build_dataset(grid) if ds is None else ds
    kw = grid_kwargs(grid)
    kw.update(extra)
    return xgcm.Grid(ds, **kw), ds


def make_array(arr, names=None, ds=None, name=None):
    import numpy as np
    import xarray as xr

    nm = names or Names()
    # a missing value in the input is written as "nan" or as the distinguished integer NAN_INT (the form TLC can read)
    special = {"nan": float("nan"), 2 ** 31 - 7: float("nan"), 2 ** 31 - 9: float("inf"), -(2 ** 31 - 9): float("-inf")}
    data = np.array([special[v] if v in special else float(v) for v in arr["flat"]], dtype="float64").reshape(arr["shape"])
    if arr.get("den", 1) != 1:
        data = data / arr["den"]               # the record holds den x the real values (halves, when den = 2)
    if arr.get("dtype") in ("float32", "int64", "int32"):
        data = data.astype(arr["dtype"])       # small integers: exact in every one of these types
    lay = arr.get("layout")
    if lay == "F":
        data = np.asfortranarray(data)                         # column-major
    elif lay == "strided" and data.ndim >= 1:
        big = np.zeros([2 * s_ for s_ in data.shape], dtype=data.dtype)
        view = big[tuple(slice(None, None, 2) for _ in data.shape)]
        view[...] = data
        data = view                                            # a non-contiguous view into a larger buffer
    elif lay == "reversed" and data.ndim >= 1:
        data = np.ascontiguousarray(data[..., ::-1])[..., ::-1]    # negative stride along the last dimension
    elif lay == "readonly":
        data = data.copy()
        data.setflags(write=False)                             # the caller's buffer must not be written to anyway
    da = xr.DataArray(data, dims=[nm(d) for d in arr["dims"]], name=name)
    if name is not None:
        # model output carries attributes, and two arrays of one call seldom carry the same ones
        da.attrs.update({"long_name": f"array {name} on {' '.join(map(str, da.dims))}", "units": "1"})
    if ds is not None:
        da = da.assign_coords({d: ds[d] for d in da.dims if d in ds.coords})
    return da


def call_kwargs(args, names=None):
    nm = names or Names()
    kw = {}
    for k in ("to", "boundary", "fill_value"):
        if k in args and args[k]["k"] != "none":
            kw[k] = to_py(args[k], nm)
    if args.get("fill_den", 1) != 1 and "fill_value" in kw:
        fv = kw["fill_value"]
        kw["fill_value"] = {a: v / args["fill_den"] for a, v in fv.items()} if isinstance(fv, dict) else fv / args["fill_den"]
    if args.get("npnum") and "fill_value" in kw:
        # the same numbers spelt as numpy scalars (what a value taken out of an array is)
        import numpy as np

        conv = {"f64": np.float64, "f32": np.float32, "i64": np.int64, "float": float}[args["npnum"]]
        fv = kw["fill_value"]
        kw["fill_value"] = {a: conv(v) for a, v in fv.items()} if isinstance(fv, dict) else conv(fv)
    return kw


NAN_INT = 2 ** 31 - 7
INF_INT = 2 ** 31 - 9


class Inexact(Exception):
    pass


def enc_int(x, scale=1):
    import numpy as np

    # NaN / infinities are never expected where integers are logged: distinguished integers keep every record
    # comparable inside TLC (a string among integers would be a type error there, i.e. a machinery failure)
    if isinstance(x, float) and math.isnan(x):
        return NAN_INT
    if isinstance(x, float) and math.isinf(x):
        return INF_INT if x > 0 else -INF_INT
    v = float(x) * scale
    r = round(v)
    if abs(v - r) > 1e-9 or abs(r) >= 2 ** 31:
        raise Inexact(f"value {x!r} times {scale} is not a small integer")
    return int(r)


def enc_rat(x, maxden=10 ** 6):
    if isinstance(x, float) and math.isnan(x):
        return [0, 0]
    if isinstance(x, float) and math.isinf(x):
        return [1 if x > 0 else -1, 0]
    fr = Fraction(float(x)).limit_denominator(maxden)
    if abs(float(fr) - float(x)) > 1e-12 * max(1.0, abs(float(x))):
        raise Inexact(f"value {x!r} is not a small rational")
    return [fr.numerator, fr.denominator]


def encode_result(da, scale=1, names=None, rational=False):
    """DataArray -> abstract array outcome with canonical dimension tokens."""
    import numpy as np

    inv = (names or Names()).inv()
    vals = np.asarray(da.values, dtype="float64").ravel().tolist()
    enc = enc_rat if rational else (lambda v: enc_int(v, scale))
    return {"k": "array", "dims": [inv.get(d, d) for d in da.dims], "shape": [int(s) for s in da.shape],
            "flat": [enc(v) for v in vals], "scale": scale,
            "name": "none" if da.name is None else inv.get(da.name, str(da.name)),
            "coords": sorted(inv.get(c, str(c)) for c in da.coords)}


def encode_error(ex):
    return {"k": "error", "cls": type(ex).__name__, "msg": str(ex)[:200]}
