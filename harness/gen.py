"""Random generators of abstract grids, arrays and call arguments shared by the property drivers."""
import random

from .model import FACE, M, NONE, POS, S, plen

RULES = ["fill", "extend", "periodic"]


def rand_axis(rng, k, dimctr, nmax=5, need_face=True, positions=None):
    if positions is None:
        nface = rng.choice([1, 1, 2, 2, 3, 4]) if need_face else rng.choice([0, 1, 2, 3, 4])
        positions = ["center"] + rng.sample(FACE, nface)
        rng.shuffle(positions)
    n = rng.randint(2, nmax)
    if rng.random() < 0.06:
        n = rng.randint(nmax + 1, nmax + 5)       # now and then an axis well beyond the usual size
    pos = []
    for p in positions:
        dimctr[0] += 1
        pos.append([p, f"d{dimctr[0]}"])
    return {"name": f"a{k}", "n": n, "pos": pos}


def rand_tagged(rng, axes, choices, allow_none=True, partial=False, total_only=False):
    """none / scalar / mapping spelling of a per-axis option"""
    kinds = (["none"] if allow_none else []) + ["s", "m"]
    k = rng.choice(kinds)
    if k == "none":
        return NONE
    if k == "s":
        return S(rng.choice(choices))
    names = list(axes)
    if partial and not total_only and len(names) > 0 and rng.random() < 0.5:
        names = rng.sample(names, rng.randint(0, len(names)))
    rng.shuffle(names)
    return M([(a, rng.choice(choices)) for a in names])


def rand_ctor(rng, axnames, fills=(-3, -2, -1, 0, 1, 2, 3), simple_periodic=True):
    """constructor arguments restricted to the spellings every property agrees are well defined
    (bool / total mapping for periodic; none / scalar / total mapping for boundary and fill_value)"""
    pk = rng.choice(["bt", "bf", "m"])
    if pk == "bt":
        periodic = {"k": "b", "v": True}
    elif pk == "bf":
        periodic = {"k": "b", "v": False}
    else:
        periodic = {"k": "m", "v": [[a, rng.random() < 0.5] for a in axnames]}
    return {"periodic": periodic,
            "boundary": rand_tagged(rng, axnames, RULES, total_only=True),
            "fill_value": rand_tagged(rng, axnames, list(fills), total_only=True),
            "default_shifts": NONE}


def rand_default_shifts(rng, axes):
    """user default-shift table for some axes (only valid, non-identity entries)"""
    pairs = []
    for ax in axes:
        present = [p for p, _ in ax["pos"]]
        if pairs and rng.random() < 0.35 and all(f in present and t_ in present for f, t_ in pairs[-1][1]):
            # the table of the previous axis again (the driver hands both axes ONE mapping object)
            pairs.append([ax["name"], [list(x) for x in pairs[-1][1]]])
            continue
        if rng.random() < 0.5:
            t = []
            for p in present:
                others = [q for q in present if q != p]
                if others and rng.random() < 0.6:
                    # keep to the 8 defined shifts so that the default is usable
                    cand = [q for q in others if (p == "center") != (q == "center")]
                    if cand:
                        t.append([p, rng.choice(cand)])
            if t:
                pairs.append([ax["name"], t])
    return {"k": "m", "v": pairs} if pairs else NONE


def sprinkle_specials(rng, data, nan=True):
    """a few cells holding NaN or an infinity (records: NAN_INT, +/- INF_INT)"""
    from .model import INF_INT, NAN_INT

    flat = data["flat"]
    for _ in range(rng.randint(1, max(1, len(flat) // 5)) if flat else 0):
        flat[rng.randrange(len(flat))] = rng.choice(([NAN_INT] if nan else []) + [INF_INT, -INF_INT, INF_INT])
    return data


def sprinkle_nan(rng, data, facedim=None):
    """missing values among the data (the records carry them as the distinguished integer NAN_INT): a few cells, or -
    with a face dimension - every cell of one face (a blank tile)"""
    from .model import NAN_INT

    flat, shape, dims = data["flat"], data["shape"], data["dims"]
    if not flat:
        return data
    if facedim in dims and rng.random() < 0.4:
        k = dims.index(facedim)
        f = rng.randrange(shape[k])
        stride = 1
        for s in shape[k + 1:]:
            stride *= s
        for i in range(len(flat)):
            if (i // stride) % shape[k] == f:
                flat[i] = NAN_INT
    else:
        for _ in range(rng.randint(1, max(1, len(flat) // 6))):
            flat[rng.randrange(len(flat))] = NAN_INT
    return data


def rand_data(rng, dims_shape, lo=-9, hi=9):
    dims = [d for d, _ in dims_shape]
    shape = [s for _, s in dims_shape]
    size = 1
    for s in shape:
        size *= s
    return {"dims": dims, "shape": shape, "flat": [rng.randint(lo, hi) for _ in range(size)]}
