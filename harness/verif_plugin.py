"""pytest plugin (`-p harness.verif_plugin`, /verif on PYTHONPATH): when XGCM_VERIF_TRACE names a directory, the
public stencil methods of xgcm.Grid are wrapped for the duration of the test session and every call made by the
repository's own tests is logged as one ndjson record (structure only: dims, shapes, positions, option spellings,
coordinates, name or exception class - the tests use random floats, values are not logged). Nothing in /repo changes."""
import functools
import json
import os

OPS = ("diff", "interp", "min", "max", "cumsum")
_state = {"f": None, "n": 0}


def _tag(v, axes):
    if v is None:
        return {"k": "none"}
    if isinstance(v, dict):
        return {"k": "m", "v": [[str(a), (x if isinstance(x, str) else "nonstring")] for a, x in v.items() if isinstance(a, str) and x is not None]}
    if isinstance(v, str):
        return {"k": "s", "v": v}
    return {"k": "s", "v": "nonstring"}


def _describe_grid(grid):
    axes = []
    for name, ax in grid.axes.items():
        pos = [[p, d] for p, d in ax.coords.items()]
        n = None
        for p, d in ax.coords.items():
            L = getattr(grid, "_ds", None).sizes.get(d) if getattr(grid, "_ds", None) is not None else None
            if L is not None:
                n = {"center": L, "left": L, "right": L, "inner": L + 1, "outer": L - 1}[p]
                break
        axes.append({"name": str(name), "n": int(n or 0), "pos": pos})
    shifts = [[str(n), [[f, t] for f, t in ax.default_shifts.items()]] for n, ax in grid.axes.items()]
    ctor = {"periodic": {"k": "m", "v": [[str(n), ax.boundary == "periodic"] for n, ax in grid.axes.items()]},
            "boundary": {"k": "m", "v": [[str(n), ax.boundary] for n, ax in grid.axes.items()]},
            "fill_value": {"k": "none"}, "default_shifts": {"k": "m", "v": shifts}}
    coords = [{"name": str(c), "dims": [str(d) for d in v.dims]} for c, v in grid._ds.coords.items()]
    return {"axes": axes, "extra": [], "ctor": ctor, "has_faces": getattr(grid, "_face_connections", None) is not None}, coords


def _wrap(op, orig):
    @functools.wraps(orig)
    def wrapper(self, da, axis, *args, **kwargs):
        import xarray as xr

        rec = None
        try:
            comp = list(da.values())[0] if isinstance(da, dict) and len(da) == 1 else da
            if isinstance(comp, xr.DataArray) and not args:
                g, dscoords = _describe_grid(self)
                ax = [axis] if isinstance(axis, str) else [str(a) for a in axis]
                fv = kwargs.get("fill_value")
                fill_bad = fv is not None and not isinstance(fv, (int, float, dict)) or (
                    isinstance(fv, dict) and any(not isinstance(x, (int, float)) for x in fv.values()))
                rec = {"ev": "SuiteCall", "op": op, "grid": g, "dscoords": dscoords, "vector": isinstance(da, dict),
                       "args": {"data": {"dims": [str(d) for d in comp.dims], "shape": [int(s) for s in comp.shape]},
                                "axis": ax, "to": _tag(kwargs.get("to"), g["axes"]), "boundary": _tag(kwargs.get("boundary"), g["axes"]),
                                "fill_value": {"k": "none"}, "fill_bad": bool(fill_bad), "keep_coords": bool(kwargs.get("keep_coords", False)),
                                "weighted": bool(kwargs.get("metric_weighted")),
                                "name": "none" if comp.name is None else str(comp.name),
                                "input_coords": sorted(str(c) for c in comp.coords)}}
        except Exception:
            rec = None
        try:
            res = orig(self, da, axis, *args, **kwargs)
        except Exception as ex:
            if rec is not None:
                rec["out"] = {"k": "error", "cls": type(ex).__name__}
                _emit(rec)
            raise
        if rec is not None:
            try:
                rec["out"] = {"k": "array", "dims": [str(d) for d in res.dims], "shape": [int(s) for s in res.shape],
                              "coords": sorted(str(c) for c in res.coords), "name": "none" if res.name is None else str(res.name)}
                _emit(rec)
            except Exception:
                pass
        return res

    return wrapper


def _emit(rec):
    if _state["f"] is None:
        d = os.environ["XGCM_VERIF_TRACE"]
        os.makedirs(d, exist_ok=True)
        _state["f"] = open(os.path.join(d, f"suite_{os.getpid()}.ndjson"), "a")
    _state["n"] += 1
    _state["f"].write(json.dumps(rec, separators=(",", ":")) + "\n")
    _state["f"].flush()


def pytest_configure(config):
    if not os.environ.get("XGCM_VERIF_TRACE") or os.environ.get("XGCM_VERIF_TRACE") == "1":
        return
    import xgcm

    for op in OPS:
        orig = getattr(xgcm.Grid, op)
        if not getattr(orig, "_verif_wrapped", False):
            w = _wrap(op, orig)
            w._verif_wrapped = True
            setattr(xgcm.Grid, op, w)
