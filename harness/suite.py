"""Traces of the repository's own test suite (DESIGN 2.6): pytest is run with harness/verif_plugin.py, which logs
every Grid.diff/interp/min/max/cumsum call the tests make; spec/SuiteTrace.tla validates their structure."""
import glob
import hashlib
import json
import os
import shutil
import subprocess
import tempfile

from .core import PY, ROOT, Machinery, repo_path


def _key():
    src = repo_path()
    h = hashlib.sha1()
    for root, _, files in sorted(os.walk(os.path.join(src, "xgcm"))):
        for f in sorted(files):
            if f.endswith(".py"):
                p = os.path.join(root, f)
                h.update(p.encode())
                h.update(open(p, "rb").read())
    return h.hexdigest()[:16]


def collect(ctx, nproc=16):
    cache = os.path.join(tempfile.gettempdir(), f"verif_suite_traces_{_key()}.ndjson")
    if not os.path.exists(cache):
        d = tempfile.mkdtemp(prefix="verif_suite_")
        try:
            env = dict(os.environ, XGCM_VERIF_TRACE=d, PYTHONPATH=os.pathsep.join([repo_path(), ROOT]), PYTHONWARNINGS="ignore")
            p = subprocess.run([PY, "-m", "pytest", "-q", "-p", "no:cacheprovider", "-p", "harness.verif_plugin", "-n", str(nproc),
                                os.path.join(repo_path(), "xgcm")], cwd=repo_path(), env=env, capture_output=True, text=True, timeout=3000)
            tail = p.stdout.strip().splitlines()[-1] if p.stdout.strip() else ""
            if " passed" not in tail:
                raise Machinery(f"could not run the repository's suite with the recording plugin: {tail} {p.stderr[-500:]}")
            recs = []
            for f in sorted(glob.glob(os.path.join(d, "*.ndjson"))):
                for line in open(f):
                    recs.append(json.loads(line))
            # identical calls are made thousands of times by parametrised tests: keep one of each
            uniq, seen = [], set()
            for r in recs:
                k = json.dumps(r, sort_keys=True)
                if k not in seen:
                    seen.add(k)
                    uniq.append(r)
            with open(cache + ".tmp", "w") as f:
                json.dump({"total": len(recs), "suite": tail, "records": uniq}, f)
            os.replace(cache + ".tmp", cache)
        finally:
            shutil.rmtree(d, ignore_errors=True)
    data = json.load(open(cache))
    for k, r in enumerate(data["records"]):
        r["id"] = k + 1
    return data


def validate(ctx, prefix):
    """records of the suite, verdicts of SuiteTrace restricted to the clauses of one property (prefix 'C01-' etc.)"""
    data = collect(ctx)
    recs = data["records"]
    bad = ctx.validate("SuiteTrace", recs, jvms=8, chunk=1500)
    mine = {}
    for r in recs:
        cl = [c for c in bad.get(r["id"], []) if c.startswith(prefix)]
        if cl:
            mine[r["id"]] = cl
            ctx.reject("suite-" + "+".join(sorted(set(cl))), f"a call made by the repository's own tests is rejected: {cl}", r)
    ctx.extra["repository_suite_traces"] = {"calls_recorded": data["total"], "distinct_calls_validated": len(recs), "suite": data["suite"],
                                            "rejected_for_this_property": len(mine)}
    return mine
