"""Pure-Python stand-in for the two things xgcm.transform needs from numba (which is not installed in this
sandbox): type placeholders and a `guvectorize` that loops the kernel over the broadcast leading dimensions.
Only used by the verification harness (it is put on sys.path by the drivers), never installed."""
import numpy as np

__version__ = "0.0-verif-shim"


class _Type:
    def __init__(self, name):
        self.name = name

    def __getitem__(self, item):
        return self

    def __repr__(self):
        return self.name


boolean = _Type("boolean")
float32 = _Type("float32")
float64 = _Type("float64")
int32 = _Type("int32")
int64 = _Type("int64")


def _parse(side):
    side = side.strip()
    specs, cur, depth = [], "", 0
    for ch in side:
        if ch == "(":
            depth += 1
            cur = ""
        elif ch == ")":
            depth -= 1
            specs.append(tuple(x.strip() for x in cur.split(",") if x.strip()))
        elif depth:
            cur += ch
    return specs


def guvectorize(signatures, layout, **kwargs):
    ins, outs = layout.split("->")
    in_specs, out_specs = _parse(ins), _parse(outs)
    if len(out_specs) != 1:
        raise NotImplementedError("shim supports exactly one output")

    def deco(fn):
        def wrapper(*args):
            if len(args) != len(in_specs):
                raise TypeError(f"expected {len(in_specs)} arguments, got {len(args)}")
            arrs = [np.asarray(a) for a in args]
            sizes, loops, cores = {}, [], []
            for a, spec in zip(arrs, in_specs):
                nd = len(spec)
                if a.ndim < nd:
                    raise ValueError("input has too few dimensions for its core signature")
                core = a.shape[a.ndim - nd:] if nd else ()
                for name, s in zip(spec, core):
                    if sizes.setdefault(name, s) != s:
                        raise ValueError(f"core dimension {name} mismatch: {sizes[name]} vs {s}")
                loops.append(a.shape[: a.ndim - nd])
                cores.append(core)
            loop = np.broadcast_shapes(*loops) if loops else ()
            fl = [a for a in arrs if a.dtype.kind == "f"]
            dtype = np.result_type(*fl) if fl else np.float64
            out = np.empty(loop + tuple(sizes[n] for n in out_specs[0]), dtype=dtype)
            b = [np.broadcast_to(a, loop + c) for a, c in zip(arrs, cores)]
            for idx in np.ndindex(*loop):
                fn(*[x[idx] if c else x[idx][()] for x, c in zip(b, cores)], out[idx])
            return out

        wrapper.__name__ = getattr(fn, "__name__", "gufunc")
        wrapper.__wrapped__ = fn
        return wrapper

    return deco


def njit(*a, **k):
    if a and callable(a[0]):
        return a[0]
    return lambda f: f


jit = njit
