"""Random whole sessions on a one-axis grid (spec/Session.tla, spec/SessionTrace.tla): the user registers metrics,
feeds results of calls back into later calls and re-registers metrics in between. Every step is logged; the
stateful trace specification carries registry and store."""
import random

from . import model

POS_LEN = {"center": lambda n: n, "left": lambda n: n, "outer": lambda n: n + 1}
SHIFT = {"center": ["left", "outer"], "left": ["center"], "outer": ["center"]}


def gen_session(rng, sid, nsteps=7):
    n = rng.randint(3, 4)
    pool = []
    for pos, names in (("center", ["mc1", "mc2"]), ("left", ["ml1", "ml2"]), ("outer", ["mo1"])):
        for v in names:
            pool.append([v, pos, [rng.randint(1, 4) for _ in range(POS_LEN[pos](n))]])
    steps = [{"ev": "SessNew", "session": sid, "n": n, "pool": pool}]
    # start with most positions registered, in some batching
    first = [rng.choice(["mc1", "mc2"]), rng.choice(["ml1", "ml2"]), "mo1"]
    rng.shuffle(first)
    cut = rng.randint(1, 3)
    steps.append({"ev": "SessSet", "call": {"vs": first[:cut], "ow": False, "ctor": rng.random() < 0.5}})
    if first[cut:]:
        steps.append({"ev": "SessSet", "call": {"vs": first[cut:], "ow": rng.random() < 0.5, "ctor": False}})
    steps.append({"ev": "SessPut", "name": "x0", "pos": "center", "v": [[rng.randint(-5, 5), 1] for _ in range(n)]})
    store = {"x0": "center"}
    k = 0
    for _ in range(nsteps):
        r = rng.random()
        if r < 0.25:
            vs = rng.sample([p[0] for p in pool], rng.randint(1, 2))
            if len({next(q[1] for q in pool if q[0] == v) for v in vs}) < len(vs):
                vs = vs[:1]
            steps.append({"ev": "SessSet", "call": {"vs": vs, "ow": rng.random() < 0.6, "ctor": False}})
            continue
        name = rng.choice(sorted(store))
        pos = store[name]
        if pos == "scalar":
            continue
        kind = rng.choice(["diff", "interp", "min", "max", "cumsum", "derivative", "cumint", "integrate", "average", "weighted"])
        call = {"kind": kind, "op": rng.choice(["diff", "interp"]) if kind == "weighted" else kind, "to": rng.choice(SHIFT[pos]),
                "rule": rng.choice(["fill", "extend"]), "fill": rng.choice([0, 0, 1, -2])}
        k += 1
        out_name = f"y{k}"
        steps.append({"ev": "SessCall", "call": call, "inp": name, "out_name": out_name})
        store[out_name] = "scalar" if kind in ("integrate", "average") else call["to"]
    return steps


def run_session(steps):
    """execute one session on the real Grid; returns the records (steps + outcomes)"""
    import warnings

    import numpy as np
    import xarray as xr
    import xgcm

    warnings.filterwarnings("ignore")
    new = steps[0]
    n = new["n"]
    dims = {"center": "xc", "left": "xl", "outer": "xo"}
    ds = xr.Dataset(coords={"xc": ("xc", np.arange(n) + 0.5), "xl": ("xl", np.arange(n) * 1.0), "xo": ("xo", np.arange(n + 1) * 1.0)})
    for v, pos, vals in new["pool"]:
        ds[v] = xr.DataArray(np.array(vals, dtype=float), dims=[dims[pos]])
    coords = {"X": {"center": "xc", "left": "xl", "outer": "xo"}}
    grid = None
    store = {}
    recs = [dict(new)]

    def reg_now():
        return [str(m.name) for m in grid._metrics.get(frozenset(["X"]), [])] if grid is not None else []

    for st in steps[1:]:
        rec = dict(st)
        rec["session"] = new["session"]
        if st["ev"] == "SessSet":
            c = st["call"]
            try:
                if grid is None and c["ctor"]:
                    grid = xgcm.Grid(ds, coords=coords, periodic=False, autoparse_metadata=False, metrics={("X",): list(c["vs"])})
                else:
                    if grid is None:
                        grid = xgcm.Grid(ds, coords=coords, periodic=False, autoparse_metadata=False)
                    grid.set_metrics(("X",), list(c["vs"]), overwrite=c["ow"])
                rec["out"] = "ok"
            except ValueError:
                rec["out"] = "refused"
            except Exception as ex:
                rec["out"] = "error"
                rec["msg"] = f"{type(ex).__name__}: {ex}"[:160]
            if grid is None:
                grid = xgcm.Grid(ds, coords=coords, periodic=False, autoparse_metadata=False)
            rec["reg_after"] = reg_now()
        elif st["ev"] == "SessPut":
            store[st["name"]] = xr.DataArray(np.array([a / b for a, b in st["v"]], dtype=float), dims=[dims[st["pos"]]], name=st["name"])
        elif st["ev"] == "SessCall":
            c = st["call"]
            da = store[st["inp"]]
            try:
                kw = {"to": c["to"], "boundary": c["rule"], "fill_value": c["fill"]}
                if c["kind"] in ("diff", "interp", "min", "max", "cumsum"):
                    res = getattr(grid, c["kind"])(da, "X", **kw)
                elif c["kind"] == "derivative":
                    res = grid.derivative(da, "X", **kw)
                elif c["kind"] == "cumint":
                    res = grid.cumint(da, "X", **kw)
                elif c["kind"] == "integrate":
                    res = grid.integrate(da, "X")
                elif c["kind"] == "average":
                    res = grid.average(da, "X")
                else:
                    res = getattr(grid, c["op"])(da, "X", metric_weighted="X", **kw)
                vals = np.atleast_1d(np.asarray(res.values, dtype=float))
                rec["out"] = {"k": "array", "pos": "scalar" if res.ndim == 0 else c["to"], "v": [model.enc_rat(float(v), 10 ** 7) for v in vals]}
                store[st["out_name"]] = res.drop_vars([cc for cc in res.coords]) if res.ndim else res
            except Exception as ex:
                rec["out"] = {"k": "error", "cls": type(ex).__name__, "msg": str(ex)[:160]}
        recs.append(rec)
    return recs


def run(ctx, nsessions):
    rng = random.Random(ctx.seed * 353868019 + 118)
    sessions = [gen_session(rng, k + 1) for k in range(nsessions)]
    out = ctx.pmap(run_session, sessions, chunksize=4)
    recs, cid = [], 0
    for rs in out:
        # a session whose store references a failed call cannot be continued by the trace spec: cut it there
        ok_names = set()
        for r in rs:
            if r["ev"] == "SessPut":
                ok_names.add(r["name"])
            if r["ev"] == "SessCall":
                if r["inp"] not in ok_names:
                    continue
                if r["out"]["k"] == "array":
                    ok_names.add(r["out_name"])
            cid += 1
            r["id"] = cid
            recs.append(r)
    # sessions must stay whole inside one TLC run: chunk at session boundaries
    bad = {}
    chunk, size = [], 0
    groups = []
    cur = []
    for r in recs:
        if r["ev"] == "SessNew" and cur:
            groups.append(cur)
            cur = []
        cur.append(r)
    if cur:
        groups.append(cur)
    batches, b = [], []
    for g in groups:
        if len(b) + len(g) > 1200 and b:
            batches.append(b)
            b = []
        b += g
    if b:
        batches.append(b)
    for b in batches:
        bad.update(ctx.validate("SessionTrace", b, jvms=1, chunk=len(b)))
    for r in recs:
        if r["id"] in bad:
            ctx.reject("session-" + "+".join(sorted(set(bad[r["id"]]))) + (":" + r["call"]["kind"] if r["ev"] == "SessCall" else ""),
                       f"stateful session specification rejects step: {bad[r['id']]}", r)
    # binding self-test on whole sessions: alter the answer of the last accepted call of a few sessions
    import copy

    altered, picked = [], []
    for g in groups:
        if len(altered) >= 3 or any(r["id"] in bad for r in g):
            continue
        g2 = copy.deepcopy(g)
        last = next((r for r in reversed(g2) if r["ev"] == "SessCall" and r["out"]["k"] == "array"), None)
        if last is None:
            continue
        last["out"]["v"][0][0] += last["out"]["v"][0][1]
        altered.append(last["id"])
        picked += g2
    if picked:
        t0 = ctx.traces
        rej = ctx.validate("SessionTrace", picked, jvms=1, chunk=len(picked))
        ctx.traces = t0
        missed = [a for a in altered if a not in rej]
        ctx.extra.setdefault("corrupt_trace_selftest", []).append({"module": "SessionTrace", "altered": len(altered), "rejected": len(altered) - len(missed)})
        if missed:
            from .core import Machinery

            raise Machinery(f"corrupt-trace self-test: SessionTrace accepted altered session steps {missed}")
    calls = [r for r in recs if r["ev"] == "SessCall"]
    ctx.extra["stateful_sessions"] = {"sessions": len(groups), "steps": len(recs), "operator_calls": len(calls),
                                      "registry_changes": sum(1 for r in recs if r["ev"] == "SessSet"),
                                      "calls_answered": sum(1 for r in calls if r["out"]["k"] == "array")}
    return recs, bad
