"""C05: halo cells across all 8 link kinds come from the documented cell (xgcm.padding.pad on face grids)."""
import random

from .. import faces, gen, model
from ..model import M, NONE, S

LEVEL = "model_checking"
RULE = ("records = real xgcm.padding.pad calls on face-connected grids: planar tables derived from oriented "
        "decompositions and random reciprocal pairings of edge slots over 2-6 faces, N 2..3, scalar and vector input, "
        "asymmetric widths 0..min(3,N) per axis, every rule on open edges, extra dims and a third non-face axis, any "
        "dim order; non-trivial = distinct (link kinds present, vector?, widths pattern, rules) classes"
        ' Also: tables in any insertion order with Python or numpy flags, components of different dtypes, earlier padding calls on the same Grid.')


def face_grid(rng, N, nfaces, table, stagger=False, third=False, nextra=0):
    axes = [{"name": "a1", "n": N, "pos": [["center", "d1"], ["left", "d2"], ["right", "d3"]]},
            {"name": "a2", "n": N, "pos": [["center", "d4"], ["left", "d5"], ["right", "d6"]]}]
    if third:
        axes.append({"name": "a3", "n": rng.randint(2, 3), "pos": [["center", "d7"], ["left", "d8"]]})
    extra = [[f"d{10 + k}", rng.randint(1, 2)] for k in range(nextra)]
    fcs = {"dim": "d9", "n": nfaces, "axes": ["a1", "a2"], "table": table}
    # spelling of the same table: insertion order of faces / axes in the dictionaries, flags as numpy booleans
    if rng.random() < 0.5:
        order = list(range(len(table)))
        rng.shuffle(order)
        fcs["order"] = order
    if rng.random() < 0.3:
        fcs["npbool"] = True
    if rng.random() < 0.2:
        fcs["labels"] = "reversed"
    return {"axes": axes, "extra": extra, "faces": fcs}


def rand_table(rng, N):
    if rng.random() < 0.5:
        K, per, orient, entries = faces.random_expressible(rng)
        return K[0] * K[1], entries, {"K": list(K), "per": list(per), "orient": [list(o) for o in orient]}
    nf = rng.randint(2, 6 if N == 2 else (4 if N == 3 else 2))
    return nf, faces.random_pairing(rng, nf), None


def gen_case(rng, cid, ev="FacePad", nmax=3, maxelems=260, vector=None, force_both=False):
    while True:
        N = rng.randint(2, nmax)
        if rng.random() < 0.05:
            N = nmax + 1                           # now and then a larger face
        nfaces, table, decomp = rand_table(rng, N)
        if not table:
            continue
        third = rng.random() < 0.2
        g = face_grid(rng, N, nfaces, table, third=third, nextra=rng.choice([0, 0, 1]))
        axnames = [a["name"] for a in g["axes"]]
        g["ctor"] = {"periodic": {"k": "b", "v": rng.random() < 0.3},
                     "boundary": gen.rand_tagged(rng, axnames, gen.RULES, partial=True),
                     "fill_value": gen.rand_tagged(rng, axnames, [-3, 0, 2, 7], partial=True), "default_shifts": NONE}
        halves = False
        isvec = rng.random() < 0.4 if vector is None else vector
        if isvec:
            vaxis = rng.choice(["a1", "a2"])
            st = rng.choice(["left", "right"])
            p1 = {"a1": st if vaxis == "a1" else "center", "a2": st if vaxis == "a2" else "center"}
            p2 = {"a1": "center" if vaxis == "a1" else st, "a2": "center" if vaxis == "a2" else st}
        else:
            vaxis = "none"
            p1 = {"a1": rng.choice(["center", "center", "left", "right"]), "a2": rng.choice(["center", "center", "left"])}
            p2 = None

        def dims_for(p):
            ds = [["d9", nfaces], [dict(g["axes"][0]["pos"])[p["a1"]], N], [dict(g["axes"][1]["pos"])[p["a2"]], N]]
            if third and rng.random() < 0.8:
                ds.append([dict(g["axes"][2]["pos"])[rng.choice(["center", "left"])], g["axes"][2]["n"]])
            return ds

        d1 = dims_for(p1)
        has_third = len(d1) == 4
        d1 += [list(e) for e in g["extra"]]
        rng.shuffle(d1)
        data = gen.rand_data(rng, d1, 1, 60)
        # distinct values make the source cell identifiable
        vals = rng.sample(range(1, 400), len(data["flat"])) if len(data["flat"]) < 390 else data["flat"]
        data["flat"] = vals
        if isvec:
            d2 = [["d9", nfaces], [dict(g["axes"][0]["pos"])[p2["a1"]], N], [dict(g["axes"][1]["pos"])[p2["a2"]], N]]
            if has_third:
                d2.append(next(x for x in d1 if x[0] in ("d7", "d8")))
            d2 += [list(e) for e in g["extra"]]
            rng.shuffle(d2)
            other = gen.rand_data(rng, d2, 1, 60)
            other["flat"] = [v + 400 for v in rng.sample(range(1, 400), len(other["flat"]))]
            if rng.random() < 0.25:
                # the two components in different dtypes: an integer component next to a partner with fractional
                # values (records hold twice the real values) - the halo is the partner's value, not a cast of it
                data["flat"] = [2 * v for v in data["flat"]]
                other["flat"] = [2 * v + 1 for v in other["flat"]]
                data["den"] = other["den"] = 2
                data["dtype"] = rng.choice(["int32", "int64"])
                halves = True
        else:
            other = {"dims": [], "shape": [], "flat": [0]}
        wmax = min(3, N)
        waxes = ["a1", "a2"] if force_both else rng.sample(["a1", "a2"], rng.randint(1, 2))
        if has_third and rng.random() < 0.6:
            waxes.append("a3")
        rng.shuffle(waxes)
        widths = [[a, rng.randint(0, wmax), rng.randint(0, wmax)] for a in waxes]
        if force_both:
            widths = [[a, max(lo, 1), max(hi, 1)] for a, lo, hi in widths]
        if all(lo == 0 and hi == 0 for _, lo, hi in widths):
            continue
        size = 1
        for d, s in d1:
            w = next((w for w in widths if d in [dd for _, dd in next(a for a in g["axes"] if a["name"] == w[0])["pos"]]), None)
            size *= s + (w[1] + w[2] if w else 0)
        if size > maxelems:
            continue
        case = {"id": cid, "ev": ev, "grid": g, "decomp": decomp or {"K": [0, 0], "per": [False, False], "orient": []},
                "args": {"data": data, "vaxis": vaxis, "other": other, "widths": widths,
                         "boundary": gen.rand_tagged(rng, axnames, gen.RULES, partial=True),
                         "fill_value": gen.rand_tagged(rng, axnames, [-3, 0, 2, 7], partial=True)}}
        if halves:
            # fill values in the same units as the data of the record (twice the real ones)
            def twice(t):
                if t["k"] == "s":
                    return {"k": "s", "v": 2 * t["v"]}
                if t["k"] == "m":
                    return {"k": "m", "v": [[a_, 2 * v_] for a_, v_ in t["v"]]}
                return t
            g["ctor"]["fill_value"] = twice(g["ctor"]["fill_value"])
            case["args"]["fill_value"] = twice(case["args"]["fill_value"])
            g["fill_den"] = case["args"]["fill_den"] = 2
        return case


def execute(case):
    nm = model.Names(case["grid"].get("names"))
    rec = dict(case)
    try:
        from xgcm.padding import pad

        grid, ds = model.make_grid(case["grid"])
        a = case["args"]
        da = model.make_array(a["data"], nm, ds, name="v1")
        kw = model.call_kwargs(a, nm)
        bw = {nm(x): (lo, hi) for x, lo, hi in a["widths"]}
        if case.get("id", 0) % 4 == 0:
            # an earlier padding call on the same Grid (scalar, one cell on both face axes, another rule)
            try:
                pad(da + 1, grid, boundary_width={nm("a1"): (1, 1), nm("a2"): (1, 1)}, boundary="extend")
            except Exception:
                pass
        if a["vaxis"] != "none":
            oth = model.make_array(a["other"], nm, ds, name="v2")
            other_ax = "a2" if a["vaxis"] == "a1" else "a1"
            res = pad({nm(a["vaxis"]): da}, grid, boundary_width=bw, other_component={nm(other_ax): oth}, **kw)
        else:
            res = pad(da, grid, boundary_width=bw, **kw)
        orig = [nm.inv().get(d, d) for d in res.dims]
        if set(res.dims) == set(da.dims):
            # pad makes no promise about dimension order (the face dimension comes back first): compare by name
            res = res.transpose(*da.dims)
        rec["out"] = model.encode_result(res, a["data"].get("den", 1), nm)
        rec["out"]["dims_as_returned"] = orig
    except Exception as ex:
        rec["out"] = model.encode_error(ex)
    return rec


def klass(r):
    a = r["args"]
    return (r["ev"], tuple(sorted(faces.link_kinds(r["grid"]["faces"]["table"]))), a["vaxis"] != "none",
            tuple((lo > 0, hi > 0, lo != hi) for _, lo, hi in a["widths"]), a["boundary"]["k"], len(a["data"]["dims"]))


def classify(rec, clauses):
    return f"{rec['ev'].lower()}-" + "+".join(sorted(set(clauses))) + ("-vector" if rec["args"]["vaxis"] != "none" else "-scalar")


def run(ctx):
    thorough = ctx.tier == "thorough"
    ctx.mc("MC_FaceTopology", "MC_FaceTopology_thorough.cfg" if thorough else "MC_FaceTopology_quick.cfg")
    if thorough:
        faces.unbounded_face_checks(ctx, ("1x2N3", "3x1N2"))
        for shape in ("3x1", "1x3", "2x1N3", "1x1"):
            ctx.mc("MC_FaceTopology", f"MC_FaceTopology_{shape}.cfg", workers=8)
        # the per-face assembly as the code performs it, step by step, against the closed form the trace specs use
        ctx.mc("MC_FaceAssemble", "MC_FaceAssemble_2x1.cfg")
    ctx.mc("MC_FaceAssemble", "MC_FaceAssemble_1x2.cfg")
    rng = random.Random(ctx.seed * 32452843 + 5)
    n = 12000 if thorough else 1200
    cases = [gen_case(rng, k + 1, nmax=3) for k in range(n)]
    recs = ctx.pmap(execute, cases, chunksize=4)
    bad = ctx.validate("C05Trace", recs, jvms=16 if thorough else 8, chunk=250)
    kinds = set()
    for r in recs:
        ctx.nontrivial.add(klass(r))
        kinds |= faces.link_kinds(r["grid"]["faces"]["table"])
        if r["id"] in bad:
            ctx.reject(classify(r, bad[r["id"]]), f"spec rejects record: {bad[r['id']]}", r)
    ctx.evaluations = len(recs)
    ctx.extra["link_kinds_covered"] = sorted([list(k) for k in kinds])
    if len(kinds) < 8:
        ctx.vacuous.append(f"only {len(kinds)} of 8 link kinds occurred")

    def corrupt(r):
        # alter one cell in the halo of exactly one axis: first face, first halo row of the first padded axis
        if r["out"]["k"] != "array":
            return False
        o = r["out"]
        for w in r["args"]["widths"]:
            if w[1] + w[2] > 0:
                # a cell that is in the halo of this axis and in the interior of the others: search by index
                import itertools
                dims = o["dims"]
                axdims = {ax["name"]: [d for _, d in ax["pos"]] for ax in r["grid"]["axes"]}
                ranges = []
                for k, d in enumerate(dims):
                    owner = next((a for a, ds in axdims.items() if d in ds), None)
                    ww = next((x for x in r["args"]["widths"] if x[0] == owner), None)
                    if owner == w[0]:
                        ranges.append([0] if w[1] > 0 else [o["shape"][k] - 1])
                    elif ww:
                        ranges.append([ww[1]])
                    else:
                        ranges.append([0])
                idx = [rg[0] for rg in ranges]
                flat = 0
                for k, s in enumerate(o["shape"]):
                    flat = flat * s + idx[k]
                o["flat"][flat] += 1
                return True
        return False

    ctx.selftest_corrupt("C05Trace", recs, bad, corrupt=corrupt, kind=lambda r: (r["args"]["vaxis"] != "none"))
    r = recs[0]
    ctx.sample({"table": r["grid"]["faces"]["table"], "widths": r["args"]["widths"], "vaxis": r["args"]["vaxis"],
                "data_dims": r["args"]["data"]["dims"], "shape": r["args"]["data"]["shape"], "out_shape": r["out"].get("shape")})
    ctx.assumptions += ["data values pairwise distinct small integers so that the source cell is identifiable",
                        "positions restricted to center/left/right (face arrays of equal length N)"]


def replay(ctx, rp):
    from ..core import setup_import_path

    setup_import_path()
    recs = [execute({k: v for k, v in c.items() if k != "out"}) for c in rp["cases"]]
    bad = ctx.validate("C05Trace", recs)
    for r in recs:
        if r["id"] in bad:
            ctx.reject(classify(r, bad[r["id"]]), f"spec rejects record: {bad[r['id']]}", r)
