"""C06: lazy (dask) execution equals in-memory execution for every chunking; laziness; the one refusal."""
import itertools
import random

from .. import faces, gen, model
from ..model import M, NONE, S
from . import c01, c03, c04, c10

LEVEL = "model_checking"
RULE = ("records = real calls on dask-backed data: diff/interp/min/max/cumsum (1-3 axes), derivative/integrate/average/"
        "cumint/metric_weighted with metrics, apply_as_grid_ufunc with and without map_overlap, face-connected grids "
        "chunked over face and extra dims (scalar and vector); every composition of the operated dimension's length into "
        "chunks (others sampled), synchronous and threaded schedulers; a dask callback counts graph executions while "
        "the result is built; non-trivial = distinct (kind, op, shift, chunk composition) classes"
        ' Also: user functions over two core dimensions (widths keyed in either order or for one axis), of two inputs (same rank or a profile against a field), lazy vector components on plain grids, a second lazy result of another rule computed in the same dask computation, names compared with the in-memory result, inputs carrying a dask-backed non-index coordinate split differently from the data.')


def compositions(n):
    if n == 0:
        return [[]]
    out = []
    for k in range(1, n + 1):
        out += [[k] + c for c in compositions(n - k)]
    return out


def chunk_variants(rng, case, exhaustive_dim=None, nsample=2):
    """chunk specs for a case: every composition of one dimension (the first operated one) x sampled
    compositions of the others"""
    dims, shape = case["args"]["data"]["dims"], case["args"]["data"]["shape"]
    if exhaustive_dim is None:
        exhaustive_dim = dims[0]
    comps = compositions(shape[dims.index(exhaustive_dim)])
    out = []
    for c in comps:
        for _ in range(nsample if len(comps) <= 8 else 1):
            spec = []
            for d, L in zip(dims, shape):
                spec.append([d, c if d == exhaustive_dim else rng.choice(compositions(L))])
            out.append(spec)
    return out


def operated_dim(case):
    g = case["grid"]
    ax = next(a for a in g["axes"] if a["name"] == case["args"]["axis"][0])
    return next(d for _, d in ax["pos"] if d in case["args"]["data"]["dims"])


class Counter:
    """counts dask graph executions"""

    def __init__(self):
        self.n = 0

    def __enter__(self):
        from dask.callbacks import Callback

        outer = self

        class CB(Callback):
            def _start(self, dsk):
                outer.n += 1

        self.cb = CB()
        self.cb.__enter__()
        return self

    def __exit__(self, *a):
        self.cb.__exit__(*a)


def user_stencil(a):
    # three-point stencil that trims what boundary_width=(1,1) padded
    return a[..., 2:] - a[..., :-2]


def call(case, grid, ds, nm, lazy):
    """perform the case's call with in-memory or dask-backed data; returns the xarray result"""
    import xarray as xr

    a = case["args"]
    da = model.make_array(a["data"], nm, ds, name="v1")
    chunks = {nm(d): tuple(c) for d, c in case["chunks"]}
    if lazy:
        da = da.chunk({d: chunks[d] for d in da.dims})
    if case.get("lazy_coord") and da.ndim:
        # a non-index coordinate on all of the data's dimensions, itself dask-backed and split differently from the data
        # (coordinates are not what is computed on: their chunking is nobody's business)
        import numpy as np

        aux = xr.DataArray(np.arange(da.size, dtype=float).reshape(da.shape) + 1000, dims=da.dims)
        if lazy:
            aux = aux.chunk({d: (da.sizes[d],) if len(chunks[d]) > 1 else ((1, da.sizes[d] - 1) if da.sizes[d] >= 2 else (1,))
                             for d in da.dims})
        da = da.assign_coords(aux_=aux)
    kw = model.call_kwargs(a, nm)
    axis = [nm(x) for x in a["axis"]]
    if a.get("axis_as_tuple") and case["kind"] in ("op", "weighted", "metric"):
        axis = tuple(axis)
    kind = case["kind"]
    if kind == "op":
        return getattr(grid, case["op"])(da, axis, **kw)
    if kind == "weighted":
        if case["sub"] == "derivative":
            return grid.derivative(da, axis[0], **kw)
        w = [nm(x) for x in a["weight"]]
        return getattr(grid, case["op"])(da, axis, metric_weighted=w, **kw)
    if kind == "metric":
        if case["sub"] == "cumint":
            return grid.cumint(da, axis, **kw)
        return getattr(grid, case["sub"])(da, axis)
    if kind == "ufunc":
        axd = next(x for x in case["grid"]["axes"] if x["name"] == a["axis"][0])
        dim = operated_dim(case)
        core_chunked = len(chunks[nm(dim)]) > 1
        if case.get("decorated"):
            # the dask options are bound when the ufunc is defined and not repeated at the call
            from xgcm.grid_ufunc import as_grid_ufunc

            gu = as_grid_ufunc(signature="(X:center)->(X:center)", boundary_width={"X": tuple(case.get("bw", (1, 1)))},
                               dask="allowed" if core_chunked else "parallelized",
                               map_overlap=bool(case["map_overlap"]) and lazy and core_chunked)(user_stencil)
            return gu(grid, da, axis=[(axis[0],)], **{k: v for k, v in kw.items() if k != "to"})
        return grid.apply_as_grid_ufunc(user_stencil, da, axis=[(axis[0],)], signature="(X:center)->(X:center)",
                                        boundary_width={"X": tuple(case.get("bw", (1, 1)))},
                                        dask="allowed" if core_chunked else "parallelized",
                                        map_overlap=bool(case["map_overlap"]) and lazy and core_chunked,
                                        **{k: v for k, v in kw.items() if k != "to"})
    if kind == "ufunc_two":
        # a user function of TWO inputs along one core dimension; the second input has the first one's dimensions or
        # only the core dimension (a profile broadcast against a field)
        b = model.make_array(a["second"], nm, ds, name="v2")
        if lazy:
            b = b.chunk({d: chunks[d] for d in b.dims})

        def stencil_two(x, y):
            return (x[..., 2:] - x[..., :-2]) + (y[..., 2:] + y[..., :-2])

        dim = nm(case["core_dims"][0])
        core_chunked = len(chunks[dim]) > 1
        return grid.apply_as_grid_ufunc(stencil_two, da, b, axis=[(axis[0],), (axis[0],)], signature="(X:center),(X:center)->(X:center)",
                                        boundary_width={"X": (1, 1)}, dask="allowed" if core_chunked else "parallelized",
                                        map_overlap=lazy and core_chunked, **{k: v for k, v in kw.items() if k != "to"})
    if kind == "ufunc2":
        # a user function over TWO core dimensions; the widths are keyed by the signature's dummy names, listed
        # in either order or for one axis only
        ws = {d: tuple(w) for d, w in case["bw2"]}
        tx, ty = sum(ws.get("X", (0, 0))), sum(ws.get("Y", (0, 0)))

        def stencil2(x):
            nx, ny = x.shape[-2] - tx, x.shape[-1] - ty
            return x[..., tx:, ty:] - x[..., :nx, :ny]

        core_chunked = any(len(chunks[nm(d)]) > 1 for d in case["core_dims"])
        return grid.apply_as_grid_ufunc(stencil2, da, axis=[(axis[0], axis[1])], signature="(X:center,Y:center)->(X:center,Y:center)",
                                        boundary_width=ws, dask="allowed" if core_chunked else "parallelized",
                                        map_overlap=lazy and core_chunked,
                                        **{k: v for k, v in kw.items() if k != "to"})
    if kind == "vecplain":
        # a vector component on a grid without face connections, lazily
        return getattr(grid, case["op"])({axis[0]: da}, axis[0], other_component={nm(a["other_axis"]): da}, **kw)
    if kind == "face":
        if a.get("other"):
            oth = model.make_array(a["other"], nm, ds, name="v2")
            if lazy:
                oth = oth.chunk({d: chunks[d] for d in oth.dims if d in chunks})
            other_ax = "a2" if a["axis"][0] == "a1" else "a1"
            return getattr(grid, case["op"])({axis[0]: da}, axis[0], other_component={nm(other_ax): oth}, **kw)
        return getattr(grid, case["op"])(da, axis[0], **kw)
    raise ValueError(kind)


def execute(case):
    import dask

    nm = model.Names(case["grid"].get("names"))
    rec = dict(case)
    scale = 1
    if case.get("op") == "interp":
        scale = 2 ** len(case["args"]["axis"])
    scale *= case["args"]["data"].get("den", 1)
    rational = case["kind"] in ("weighted",) or case.get("sub") == "average"
    try:
        ds = model.build_dataset(case["grid"])
        extra = {}
        if case.get("reg"):
            extra["metrics"] = c10.register(case, ds, nm)
        grid, ds = model.make_grid(case["grid"], ds=ds, **extra)
    except Exception as ex:
        rec["out"] = rec["eager"] = model.encode_error(ex)
        rec["lazy"], rec["computes"] = False, 0
        return rec

    def enc(res):
        o = model.encode_result(res, scale, nm, rational=rational)
        if rational:
            o["flat"] = [[0, 0] if v == "nan" else v for v in o["flat"]]
        return o

    try:
        rec["eager"] = enc(call(case, grid, ds, nm, lazy=False))
    except Exception as ex:
        rec["eager"] = model.encode_error(ex)
    rec["lazy"], rec["computes"] = False, 0
    try:
        with Counter() as cnt:
            res = call(case, grid, ds, nm, lazy=True)
        rec["computes"] = cnt.n
        rec["lazy"] = bool(dask.is_dask_collection(res.data))
        sched = "synchronous" if case["sched"] == "sync" else "threads"
        other = None
        if case["kind"] == "op" and case.get("id", 0) % 2 == 0:
            # a second lazy result of the same operation on the same data under ANOTHER rule, computed in the same
            # dask computation: what a result computes to does not depend on what it is computed together with
            try:
                a2 = dict(case["args"], boundary=S("extend" if case["args"]["boundary"].get("v") != "extend" else "fill"), fill_value=S(5))
                other = call(dict(case, args=a2), grid, ds, nm, lazy=True)
            except Exception:
                other = None
        elif case["kind"] == "op" and case.get("id", 0) % 4 == 1 and case.get("op") in TWIN_OP:
            # ... nor on ANOTHER operation applied to the same lazy array under the same rule (min next to max, diff next
            # to interp): two task graphs over one input, computed in one go, in either order
            try:
                other = call(dict(case, op=TWIN_OP[case["op"]]), grid, ds, nm, lazy=True)
            except Exception:
                other = None
        with dask.config.set(scheduler=sched):
            if other is not None and case.get("id", 0) % 8 == 5:
                _, res = dask.compute(other, res)
            elif other is not None:
                res, _ = dask.compute(res, other)
            else:
                res = res.compute()
        rec["out"] = enc(res)
    except Exception as ex:
        rec["out"] = model.encode_error(ex)
    return rec


TWIN_OP = {"min": "max", "max": "min", "diff": "interp", "interp": "diff"}


def empty_chunk_variants(rng, case, dim):
    """chunkings of the operated dimension that contain an EMPTY chunk (what slicing, rechunking or a lazy selection
    leaves behind): one non-empty chunk next to empty ones, and a split with an empty chunk inside"""
    dims, shape = case["args"]["data"]["dims"], case["args"]["data"]["shape"]
    n = shape[dims.index(dim)]
    if n < 1:
        return []
    cands = [[n, 0], [0, n], [0, n, 0]] + ([[n // 2, 0, n - n // 2]] if n >= 2 else [])
    out = []
    for c in rng.sample(cands, 2):
        out.append([[d, (c if d == dim else [L])] for d, L in zip(dims, shape)])
    return out


def with_chunks(rng, base, kind, specs, **more):
    out = []
    for spec in specs:
        c = dict(base)
        c.update(more)
        c["ev"], c["kind"], c["chunks"] = "Dask", kind, spec
        c["sched"] = rng.choice(["sync", "threads"])
        c["lazy_coord"] = rng.random() < 0.15
        out.append(c)
    return out


def gen_cases(rng, thorough):
    cases = []
    nbase = 400 if thorough else 45
    # stencil operators and cumsum: geometry-checked
    for _ in range(nbase):
        b = c01.gen_case(rng, 0, ops=c01.OPS + ["cumsum"], nmax=6 if thorough else 5, maxelems=60)
        cases += with_chunks(rng, b, "op", chunk_variants(rng, b, operated_dim(b)))
        if len(b["args"]["axis"]) == 1 and rng.random() < 0.5:
            cases += with_chunks(rng, b, "op", empty_chunk_variants(rng, b, operated_dim(b)), empty_chunk=True)
    # metric-aware operators
    for _ in range(nbase // 2):
        sub = rng.choice(["derivative", "weighted"])
        b = c10.gen_op(rng, 0, "Derivative" if sub == "derivative" else "Weighted")
        b["args"].pop("axis_as_str", None)
        cases += with_chunks(rng, b, "weighted", chunk_variants(rng, b, operated_dim(b), nsample=1), sub=sub)
    for _ in range(nbase // 2):
        sub = rng.choice(["integrate", "average", "cumint"])
        if sub == "cumint":
            from . import c09

            b = c09.gen_cumint(rng, 0)
            m = b.pop("metric")
            b["reg"] = [{"key": list(b["args"]["axis"]), "var": "m1", "dims": m["dims"], "shape": m["shape"], "flat": m["flat"]}]
        else:
            b = c10.gen_op(rng, 0, "Integrate")
            b["args"].pop("axis_as_str", None)
        cases += with_chunks(rng, b, "metric", chunk_variants(rng, b, operated_dim(b), nsample=1), sub=sub)
    # user ufunc through apply_as_grid_ufunc, with and without map_overlap
    for _ in range(nbase // 2):
        while True:
            b = c01.gen_case(rng, 0, ops=["diff"], nmax=6, maxelems=60)
            ax = next(a for a in b["grid"]["axes"] if a["name"] == b["args"]["axis"][0])
            if len(b["args"]["axis"]) == 1 and dict(ax["pos"])["center"] in b["args"]["data"]["dims"]:
                break
        b.pop("op")
        b["args"]["to"] = NONE
        dim = operated_dim(b)
        for spec in chunk_variants(rng, b, dim, nsample=1):
            core_chunked = len(dict((d, c) for d, c in spec)[dim]) > 1
            # map_overlap is meant for data chunked along the core dimension; without it only other dims are chunked
            cases += with_chunks(rng, b, "ufunc", [spec], map_overlap=core_chunked, bw=rng.choice([[1, 1], [1, 1], [2, 0], [0, 2]]),
                                 decorated=rng.random() < 0.4)
    # user ufunc over two core dimensions
    for _ in range(nbase // 2):
        n1, n2 = rng.randint(2, 4), rng.randint(2, 4)
        extra = [["d9", rng.randint(1, 2)]] if rng.random() < 0.5 else []
        g = {"axes": [{"name": "a1", "n": n1, "pos": [["center", "d1"], ["left", "d2"]]},
                      {"name": "a2", "n": n2, "pos": [["center", "d3"], ["left", "d4"]]}], "extra": extra,
             "ctor": gen.rand_ctor(rng, ["a1", "a2"])}
        ds_ = [["d1", n1], ["d3", n2]] + [list(e) for e in extra]
        rng.shuffle(ds_)
        axis = rng.choice([["a1", "a2"], ["a2", "a1"]])            # which real axis plays X and which Y
        b = {"grid": g, "args": {"data": gen.rand_data(rng, ds_), "axis": axis, "to": NONE,
                                 "boundary": gen.rand_tagged(rng, ["a1", "a2"], gen.RULES, partial=True),
                                 "fill_value": gen.rand_tagged(rng, ["a1", "a2"], [-3, 0, 2], partial=True)},
             "core_dims": ["d1", "d3"]}
        wpool = [[0, 0], [1, 0], [0, 1], [1, 1]]
        for _ in range(3):
            bw2 = [["X", rng.choice(wpool)], ["Y", rng.choice(wpool)]]
            r_ = rng.random()
            if r_ < 0.35:
                bw2.reverse()
            elif r_ < 0.5:
                bw2 = [rng.choice(bw2)]
            spec = [[d, rng.choice(compositions(L))] for d, L in ds_]
            cases += with_chunks(rng, b, "ufunc2", [spec], bw2=bw2)
    # user ufunc of two inputs (same rank, or a profile against a field)
    for _ in range(nbase // 3):
        n1 = rng.randint(3, 5)
        ex = [["d9", rng.randint(1, 2)]]
        g = {"axes": [{"name": "a1", "n": n1, "pos": [["center", "d1"], ["left", "d2"]]}], "extra": ex, "ctor": gen.rand_ctor(rng, ["a1"])}
        ds_ = [["d1", n1]] + ex
        rng.shuffle(ds_)
        same = rng.random() < 0.5
        second = gen.rand_data(rng, ds_ if same else [["d1", n1]])
        b = {"grid": g, "args": {"data": gen.rand_data(rng, ds_), "second": second, "axis": ["a1"], "to": NONE,
                                 "boundary": gen.rand_tagged(rng, ["a1"], gen.RULES, partial=True),
                                 "fill_value": gen.rand_tagged(rng, ["a1"], [-3, 0, 2], partial=True)},
             "core_dims": ["d1"], "same_rank": same}
        for _ in range(2):
            comp = [c for c in compositions(n1) if min(c) >= 2] or [[n1]]
            spec = [[d, (rng.choice(comp) if d == "d1" else rng.choice(compositions(L)))] for d, L in ds_]
            cases += with_chunks(rng, b, "ufunc_two", [spec])
    # face-connected grids chunked over the face and extra dims (never the two spatial dims)
    for _ in range(nbase):
        vec = rng.random() < 0.4
        b = c04.gen_vec(rng, 0) if vec else c03.gen_case(rng, 0)
        if not vec:
            b["args"].pop("other", None)
        dims, shape = b["args"]["data"]["dims"], b["args"]["data"]["shape"]
        spatial = {d for a in b["grid"]["axes"] for _, d in a["pos"]}
        for _ in range(3):
            spec = [[d, [L] if d in spatial else rng.choice(compositions(L))] for d, L in zip(dims, shape)]
            cases += with_chunks(rng, b, "face", [spec])
    for _ in range(nbase // 3):
        b = c04.gen_plain(rng, 0)
        cases += with_chunks(rng, b, "vecplain", chunk_variants(rng, b, operated_dim(b), nsample=1)[:6])
    for k, c in enumerate(cases):
        c["id"] = k + 1
        # the property speaks of floating-point data (integer dask data is outside it: xgcm declares the input's
        # dtype for the lazy result, see DESIGN 10.4), so the dtype variants of C01's generator are kept floating
        d = c["args"]["data"]
        if d.get("dtype") in ("int32", "int64"):
            c["args"] = dict(c["args"], data=dict(d, dtype="float32" if d["dtype"] == "int32" else "float64"))
    return cases


def klass(r):
    return (r["kind"], r.get("op"), r.get("sub"), tuple(r["args"]["axis"]), str(r["args"].get("to")),
            tuple(tuple(c) for _, c in r["chunks"]), r["sched"])


KNOWN_DEPTH = "map_overlap-boundary-width-exceeds-a-chunk"
KNOWN_EMPTY = "empty-chunk-along-the-operated-dimension-refused-with-ValueError"


def classify(rec, clauses):
    cl = "+".join(sorted(set(clauses)))
    if rec["kind"] == "ufunc" and rec.get("map_overlap") and rec["out"]["k"] == "error" and clauses == ["raised-on-lazy-input"]:
        # the design-level counterexample of spec/DaskChunks (MC_Dask_20): a boundary width larger than an adjacent
        # (merged) chunk; dask refuses the overlap with ValueError
        dim = operated_dim(rec)
        ch = list(dict((d, c) for d, c in rec["chunks"])[dim])
        lo, hi = rec.get("bw", (1, 1))
        m = [lo + sum(ch) + hi] if len(ch) == 1 else [ch[0] + lo] + ch[1:-1] + [ch[-1] + hi]
        # dask rechunks as soon as ANY chunk is shorter than the overlap depth, and the chunks xgcm declared for the
        # output no longer match
        short = len(m) > 1 and min(m) < max(lo, hi)
        if short and rec["out"].get("cls") == "ValueError":
            return KNOWN_DEPTH
    if rec["kind"] == "op" and rec.get("empty_chunk") and rec["out"]["k"] == "error" and clauses == ["raised-on-lazy-input"] \
            and rec["out"].get("cls") == "ValueError":
        # a chunk of length 0 along the operated dimension: dask's overlap machinery drops / merges it (it is shorter than
        # the depth 1 of the predefined operators - the mechanism of KNOWN_DEPTH) and the chunks xgcm declared no longer
        # match ("adjust_chunks specified with ..."); dask's own cumsum cannot broadcast across an empty chunk either
        ch = list(dict((d, c) for d, c in rec["chunks"])[operated_dim(rec)])
        msg = rec["out"].get("msg", "")
        if 0 in ch and ("adjust_chunks" in msg or (rec.get("op") == "cumsum" and ("broadcast" in msg or "replacement data must match" in msg))):
            return KNOWN_EMPTY
    return f"dask-{rec['kind']}-{cl}"


def run(ctx):
    thorough = ctx.tier == "thorough"
    for c in ("10", "01", "11", "20u"):
        ctx.mc("DaskChunks", f"MC_Dask_{c}.cfg", workers=4)
    ctx.mc("DaskChunks", "MC_Dask_20.cfg", workers=4, expect_violation="ResultOK")
    # the dispatcher's choice of dask mode / overlap wrapper per axis (anchor grid.py:650-683)
    for op in ("stencil", "cumsum"):
        ctx.mc("DaskDispatch", f"MC_DaskDispatch_code_{op}.cfg", workers=2)
    ctx.mc("DaskDispatch", "MC_DaskDispatch_overlap-everywhere_stencil.cfg", workers=2, expect_violation="RefusalExact")
    rng = random.Random(ctx.seed * 141650939 + 6)
    cases = gen_cases(rng, thorough)
    recs = ctx.pmap(execute, cases, chunksize=4)
    bad = ctx.validate("C06Trace", recs, jvms=16 if thorough else 8, chunk=400)
    refused = 0
    for r in recs:
        ctx.nontrivial.add(klass(r))
        refused += r["out"]["k"] == "error" and r["out"].get("cls") == "NotImplementedError"
        if r["id"] in bad:
            ctx.reject(classify(r, bad[r["id"]]), f"spec rejects record: {bad[r['id']]}", r)
    ctx.evaluations = len(recs)
    ctx.extra["refusals_observed"] = refused
    ctx.extra["records_by_kind"] = {k: sum(1 for r in recs if r["kind"] == k) for k in ("op", "weighted", "metric", "ufunc", "ufunc2", "ufunc_two", "face", "vecplain")}

    def corrupt(r):
        if r["out"]["k"] != "array" or r["eager"]["k"] != "array":
            return False
        which = r["id"] % 3
        if which == 0:
            v = r["out"]["flat"][-1]
            r["out"]["flat"][-1] = [v[0] + max(1, v[1]), max(1, v[1])] if isinstance(v, list) else v + 1
        elif which == 1:
            r["computes"] = 1
        else:
            r["lazy"] = False
        return True

    ctx.selftest_corrupt("C06Trace", recs, bad, corrupt=corrupt, kind=lambda r: (r["kind"], r["id"] % 3), per_kind=1)
    r = recs[0]
    ctx.sample({"kind": r["kind"], "op": r.get("op"), "axis": r["args"]["axis"], "to": r["args"].get("to"),
                "chunks": r["chunks"], "sched": r["sched"], "lazy": r["lazy"], "computes": r["computes"], "out": r["out"]})
    ctx.assumptions += ["synchronous and threaded schedulers only (distributed is not installed)",
                        "small integer data: dask and numpy results are compared exactly"]


def replay(ctx, rp):
    from ..core import setup_import_path

    setup_import_path()
    recs = [execute({k: v for k, v in c.items() if k not in ("out", "eager", "lazy", "computes")}) for c in rp["cases"]]
    bad = ctx.validate("C06Trace", recs)
    for r in recs:
        if r["id"] in bad:
            ctx.reject(classify(r, bad[r["id"]]), f"spec rejects record: {bad[r['id']]}", r)
