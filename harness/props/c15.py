"""C15: signature parse/print are inverse; rejection classes; equivalence is renaming; operator lookup by shift."""
import itertools
import random

from .. import model
from ..model import FACE, POS

LEVEL = "model_checking"
RULE = ("Parse records: every well-formed signature within a bound (<= 2 inputs, <= 2 outputs, <= 4 pairs per argument, "
        "names from a pool, 5 positions; sampled beyond it up to 3 inputs) printed with and without spaces, and every "
        "single-character deletion / insertion / substitution (alphabet of 20 characters) of a sample of them; Equiv "
        "records: pairs related by a renaming, by a non-injective renaming, by a position change or by an argument "
        "permutation; Hints records: the same structures as Annotated type hints; Select records: every (operator, "
        "from, to) x axis names; non-trivial = distinct texts / pairs")

NAMES = ["X", "Y", "lon", "Zl", "k", "ax_2"]
ALPHABET = list("(),:->XYq c_1 ") + ["e", "l", "Z", "-", ">", "n", "\n", "\t"]


def chars(s):
    return list(s)


def struct_text(ins, outs, spaces=False, rng=None):
    def arg(a):
        return "(" + ",".join(f"{n}:{p}" for n, p in a) + ")"

    t = ",".join(arg(a) for a in ins) + "->" + ",".join(arg(a) for a in outs)
    if spaces and rng:
        out = ""
        for ch in t:
            out += ch
            if rng.random() < 0.2 and ch not in "-":
                out += " "
        t = out
    return t


def rand_arg(rng, names, maxpairs=2):
    return [(rng.choice(names), rng.choice(POS)) for _ in range(rng.randint(0, maxpairs))]


def rand_struct(rng, nin=None, nout=None, names=NAMES):
    nm = rng.sample(names, rng.randint(1, min(4, len(names))))
    mp = rng.choice([2, 2, 2, 3, 4])                 # arguments of three and four pairs too (a three-dimensional ufunc)
    ins = [rand_arg(rng, nm, mp) for _ in range(nin or rng.randint(1, 3))]
    outs = [rand_arg(rng, nm, mp) for _ in range(nout if nout is not None else rng.randint(1, 2))]
    return ins, outs


def small_structs():
    """exhaustive: 1 input with <=2 pairs, 1 output with <=1 pair, names X/lon, all 5 positions"""
    names = ["X", "lon"]
    pairs = [(n, p) for n in names for p in POS]
    args = [[]] + [[p] for p in pairs] + [[p, q] for p in pairs for q in pairs]
    outs = [[]] + [[p] for p in pairs]
    return [([a], [o]) for a in args for o in outs]


def corruptions(text, rng, k):
    out = set()
    n = len(text)
    cands = []
    for i in range(n):
        cands.append(text[:i] + text[i + 1:])
        for c in ALPHABET:
            cands.append(text[:i] + c + text[i:])
            if c != text[i]:
                cands.append(text[:i] + c + text[i + 1:])
    for c in ALPHABET:
        cands.append(text + c)
    if k is None or k >= len(cands):
        return sorted(set(cands))
    return sorted(set(rng.sample(cands, k)))


def enc_struct(names, positions):
    return [[[chars(n), chars(p)] for n, p in zip(an, ap)] for an, ap in zip(names, positions)]


def _sig_of(text):
    """the signature object the public decorator builds for a signature text"""
    from xgcm.grid_ufunc import as_grid_ufunc

    def f(*a):
        return a

    if text.replace(" ", "") == "":
        raise ValueError("empty signature")       # an empty string means "use the type hints" to the decorator
    return as_grid_ufunc(signature=text)(f).signature


def _struct_from_text(printed):
    """fallback when the signature object does not expose its parts: read them back from its printed form"""
    def side(t):
        args = []
        for a in t.strip()[1:-1].split("),(") if t.strip() else []:
            args.append([[list(p.split(":")[0]), list(p.split(":")[1])] for p in a.split(",") if p])
        return args

    l, r = printed.split("->")
    return side(l), side(r)


def _parts(sig):
    try:
        return enc_struct(sig.in_ax_names, sig.in_ax_positions), enc_struct(sig.out_ax_names, sig.out_ax_positions)
    except AttributeError:
        return _struct_from_text(str(sig))


def execute(case):
    from xgcm.grid_ufunc import as_grid_ufunc

    rec = dict(case)
    ev = case["ev"]
    try:
        if ev == "Parse":
            text = "".join(case["text"])
            try:
                sig = _sig_of(text)
            except ValueError as ex:
                rec["out"] = {"k": "rejected", "cls": "ValueError"}
                return rec
            printed = str(sig)
            re2 = _sig_of(printed)
            same = _parts(re2) == _parts(sig) and str(re2) == printed
            ins, outs = _parts(sig)
            rec["out"] = {"k": "parsed", "ins": ins, "outs": outs, "printed": chars(printed), "reparsed_equal": bool(same)}
        elif ev == "Equiv":
            a = _sig_of("".join(case["a"]))
            b = _sig_of("".join(case["b"]))
            rec["out"] = {"k": "bool", "v": bool(a.equivalent(b))}
        elif ev == "Hints":
            from typing import Annotated, Tuple

            import numpy as np

            ins = case["ins"]
            outs = case["outs"]

            sp = case.get("spaces", 0)

            def ann(arg):
                # blanks after the commas / around the text: "spaces aside", as in a signature given as a string
                txt = (", " if sp else ",").join("".join(n) + ":" + "".join(p) for n, p in arg)
                return Annotated[np.ndarray, (" " + txt + " ") if sp == 2 else txt]

            pnames = case.get("params") or [f"a{k}" for k in range(len(ins))]
            params = {pnames[k]: ann(a) for k, a in enumerate(ins)}
            ret = ann(outs[0]) if len(outs) == 1 else Tuple[tuple(ann(o) for o in outs)]

            def f(*args):
                return args

            f.__annotations__ = dict(params, **{"return": ret})
            g = as_grid_ufunc()(f)
            pi, po = _parts(g.signature)
            rec["out"] = {"k": "parsed", "ins": pi, "outs": po}
        elif ev == "Select":
            # through the public operator: a one-axis grid whose axis has the two positions, data on the first
            import numpy as np
            import xarray as xr
            import xgcm

            name = "".join(case["axis"])
            f_, t_ = case["from"], case["to"]
            n = 3
            L = {"center": n, "left": n, "right": n, "inner": n - 1, "outer": n + 1}
            ds = xr.Dataset(coords={"df": ("df", np.arange(L[f_]) * 1.0), "dt": ("dt", np.arange(L[t_]) * 1.0)})
            grid = xgcm.Grid(ds, coords={name: {f_: "df", t_: "dt"}}, periodic=False, autoparse_metadata=False)
            da = xr.DataArray(np.arange(L[f_]) * 1.0, dims=["df"])
            try:
                getattr(grid, case["op"])(da, name, to=t_)
                rec["out"] = {"k": "found"}
            except (NotImplementedError, ValueError):
                rec["out"] = {"k": "notfound"}
    except Exception as ex:
        rec["out"] = model.encode_error(ex)
    return rec


def gen_cases(rng, thorough):
    cases = []
    structs = small_structs()
    more = [rand_struct(rng) for _ in range(4000 if thorough else 500)]
    for ins, outs in structs + more:
        cases.append({"ev": "Parse", "text": chars(struct_text(ins, outs))})
        if rng.random() < 0.3:
            cases.append({"ev": "Parse", "text": chars(struct_text(ins, outs, spaces=True, rng=rng))})
    base = rng.sample(structs + more, 400 if thorough else 60)
    for ins, outs in base:
        t = struct_text(ins, outs)
        for c in corruptions(t, rng, None if thorough else 150):
            cases.append({"ev": "Parse", "text": chars(c)})
    # every insertion of one structural character (",", "(", ")", ":", "-", ">") at every place of a sample of texts
    for _ in range(120 if thorough else 25):
        ins, outs = rand_struct(rng)
        t = struct_text(ins, outs)
        for i in range(len(t) + 1):
            for ch in ",():->":
                cases.append({"ev": "Parse", "text": chars(t[:i] + ch + t[i:])})
    # hand-picked malformed shapes of every listed class
    for t in ["(X:center),->(X:left)", "(X:center)->(X:left),", "(),->()", ",(X:center)->(X:left)", "(X:center)->,(X:left)",
              "(X:center),(Y:left),->(X:left)", "()->(),", "(X:center)->(X:left)\n", "\n(X:center)->(X:left)", "(X:center)->(X:left)\t",
              "(X:center)\n->(X:left)", "(X:center)->(X:left)\n\n", "()->()\n"]:
        cases.append({"ev": "Parse", "text": chars(t)})
    for t in ["(X:center)", "(X:center)->", "->(X:center)", "(X:center)->(X:left)->(X:center)", "((X:center))->(X:left)",
              "(X:center->(X:left)", "X:center)->(X:left)", "(X:center)(Y:left)->(X:left)", "(X:middle)->(X:left)",
              "(:center)->(X:left)", "(X:)->(X:left)", "(X:center,,Y:left)->(X:left)", "(X:center),,(Y:left)->(X:left)",
              "(X:center)->(X:left)!", "(X;center)->(X:left)", "(X:center)=>(X:left)", "(X:center)->(X:left))", "(X center)->(X:left)"]:
        cases.append({"ev": "Parse", "text": chars(t)})
    # equivalence
    for _ in range(6000 if thorough else 900):
        ins, outs = rand_struct(rng, names=["X", "Y", "Z"])
        used = sorted({n for a in ins + outs for n, _ in a})
        kind = rng.choice(["rename", "rename", "merge", "merge-onto-used", "position", "permute", "same"])
        pool = ["A", "B", "C", "X", "Y", "Z", "lon", "lat"]
        if kind in ("rename", "same"):
            new = used if kind == "same" else rng.sample(pool, len(used))
            m = dict(zip(used, new))
            ins2 = [[(m[n], p) for n, p in a] for a in ins]
            outs2 = [[(m[n], p) for n, p in a] for a in outs]
        elif kind == "merge":
            m = {n: rng.choice(["A", "B"]) for n in used}
            ins2 = [[(m[n], p) for n, p in a] for a in ins]
            outs2 = [[(m[n], p) for n, p in a] for a in outs]
        elif kind == "merge-onto-used":
            # one name of the signature merged onto another name the signature uses itself (earlier or later in it)
            if len(used) < 2:
                continue
            u_, v_ = rng.sample(used, 2)
            m = {n: (v_ if n == u_ else n) for n in used}
            ins2 = [[(m[n], p) for n, p in a] for a in ins]
            outs2 = [[(m[n], p) for n, p in a] for a in outs]
            if rng.random() < 0.5:
                ins, outs, ins2, outs2 = ins2, outs2, ins, outs
            kind = "merge"
        elif kind == "position":
            ins2 = [list(a) for a in ins]
            outs2 = [list(a) for a in outs]
            side = rng.choice([ins2, outs2])
            cand = [(i, j) for i, a in enumerate(side) for j in range(len(a))]
            if cand:
                i, j = rng.choice(cand)
                n, p = side[i][j]
                side[i][j] = (n, rng.choice([q for q in POS if q != p]))
        else:
            ins2 = list(ins)
            rng.shuffle(ins2)
            outs2 = list(outs)
        cases.append({"ev": "Equiv", "a": chars(struct_text(ins, outs)), "b": chars(struct_text(ins2, outs2)), "kind": kind})
    # merging exactly two names that live on ONE side only (two output-only names, two input-only names) or one per side
    for _ in range(1500 if thorough else 250):
        n1, n2, n3 = rng.sample(["X", "Y", "Z", "lon", "k"], 3)
        where = rng.choice(["out", "out", "in", "across"])
        if where == "out":
            ins = [[(n1, rng.choice(POS))] for _ in range(rng.randint(0, 2))] or [[]]
            outs = rng.choice([[[(n2, rng.choice(POS))], [(n3, rng.choice(POS))]], [[(n2, rng.choice(POS)), (n3, rng.choice(POS))]]])
        elif where == "in":
            ins = rng.choice([[[(n2, rng.choice(POS))], [(n3, rng.choice(POS))]], [[(n2, rng.choice(POS)), (n3, rng.choice(POS))]]])
            outs = [[(n1, rng.choice(POS))]] if rng.random() < 0.5 else [[]]
        else:
            ins, outs = [[(n2, rng.choice(POS))]], [[(n3, rng.choice(POS))]]
        m = {n1: n1, n2: n2, n3: n2} if rng.random() < 0.5 else {n1: n1, n2: n3, n3: n3}      # onto the earlier / the later name
        ins2 = [[(m[n], p) for n, p in a] for a in ins]
        outs2 = [[(m[n], p) for n, p in a] for a in outs]
        pair = [struct_text(ins, outs), struct_text(ins2, outs2)]
        if rng.random() < 0.5:
            pair.reverse()
        cases.append({"ev": "Equiv", "a": chars(pair[0]), "b": chars(pair[1]), "kind": "merge"})
    # type hints
    for _ in range(1500 if thorough else 250):
        ins, outs = rand_struct(rng)
        ins = [a for a in ins] or [[("X", "center")]]
        # parameter names in no particular (e.g. not alphabetical) order: the declaration order is what counts
        cases.append({"ev": "Hints", "ins": [[[chars(n), chars(p)] for n, p in a] for a in ins],
                      "outs": [[[chars(n), chars(p)] for n, p in a] for a in outs],
                      "params": rng.sample(["u", "dx", "phi", "area", "z", "b", "m", "a0"], len(ins)),
                      "spaces": rng.choice([0, 0, 1, 2])})
    # selection of the predefined operation for every shift and several axis names
    for op in ("diff", "interp", "min", "max", "cumsum"):
        for f in POS:
            for t in POS:
                if f != t:
                    for name in (["X", "lon", "Zl", "ax_2", "depth"] if thorough else ["X", "lon"]):
                        cases.append({"ev": "Select", "op": op, "from": f, "to": t, "axis": chars(name)})
    for k, c in enumerate(cases):
        c["id"] = k + 1
    return cases


def classify(rec, clauses):
    return f"{rec['ev'].lower()}-" + "+".join(sorted(set(clauses)))


def run(ctx):
    thorough = ctx.tier == "thorough"
    ctx.mc("MC_Signature", "MC_Signature_thorough.cfg" if thorough else "MC_Signature_quick.cfg")
    rng = random.Random(ctx.seed * 198491317 + 15)
    cases = gen_cases(rng, thorough)
    recs = ctx.pmap(execute, cases, chunksize=256)
    bad = ctx.validate("C15Trace", recs, jvms=16 if thorough else 8, chunk=3000)
    acc = 0
    for r in recs:
        if r["ev"] == "Parse":
            ctx.nontrivial.add("".join(r["text"]))
            acc += r["out"]["k"] == "parsed"
        elif r["ev"] == "Equiv":
            ctx.nontrivial.add(("".join(r["a"]), "".join(r["b"])))
        if r["id"] in bad:
            ctx.reject(classify(r, bad[r["id"]]), f"spec rejects record: {bad[r['id']]}", r)
    ctx.evaluations = len(recs)
    ctx.extra["texts_accepted_by_the_parser"] = acc
    ctx.extra["records_by_event"] = {e: sum(1 for r in recs if r["ev"] == e) for e in ("Parse", "Equiv", "Hints", "Select")}

    def corrupt(r):
        o = r["out"]
        if r["ev"] == "Parse" and o["k"] == "parsed" and o["printed"]:
            o["printed"] = o["printed"][:-1]
            return True
        if r["ev"] == "Equiv" and o["k"] == "bool":
            o["v"] = not o["v"]
            return True
        if r["ev"] == "Select":
            valid = (r["from"] == "center") != (r["to"] == "center")
            if valid and o["k"] == "found":
                o["k"] = "notfound"
                return True
            return False
        if r["ev"] == "Hints" and o["k"] == "parsed" and o["ins"] and o["ins"][0]:
            o["ins"][0][0][1] = chars("inner" if "".join(o["ins"][0][0][1]) != "inner" else "outer")
            return True
        return False

    ctx.selftest_corrupt("C15Trace", recs, bad, corrupt=corrupt)
    for ev in ("Parse", "Equiv"):
        r = next(x for x in recs if x["ev"] == ev)
        ctx.sample({"ev": ev, "text": "".join(r.get("text", r.get("a", []))), "b": "".join(r.get("b", [])), "out": r["out"]})
    ctx.assumptions += ["the specification of the parser is the grammar, not a model of Python's re engine",
                        "run under PYTHONHASHSEED=0; seed dependence is C12's subject"]


def replay(ctx, rp):
    from ..core import setup_import_path

    setup_import_path()
    recs = [execute({k: v for k, v in c.items() if k != "out"}) for c in rp["cases"]]
    bad = ctx.validate("C15Trace", recs)
    for r in recs:
        if r["id"] in bad:
            ctx.reject(classify(r, bad[r["id"]]), f"spec rejects record: {bad[r['id']]}", r)
