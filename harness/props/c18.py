"""C18: operations never modify their arguments; results are history-independent.
Sessions of up to 3 calls from a catalogue of public Grid methods re-use the same argument objects; every call is
logged with digests of all argument objects and of the grids' settings before and after, and of its result."""
import hashlib
import itertools
import random

LEVEL = "model_checking"
RULE = ("sessions = every ordered pair (quick) / a large sample of triples (thorough) of calls from a catalogue of 31 "
        "public calls (scalar and vector, simple and face-connected grids, multi-axis with mapping arguments, metric-aware "
        "operators, pad, apply_as_grid_ufunc, transform with anonymous target_data, constructors given mapping arguments, "
        "calls that raise) on ONE set of argument objects; each call logs sha1 digests of every argument object, of the "
        "grids' settings and of its result; the reference result of a call is its result as first call on fresh objects; "
        "non-trivial = distinct (call, position in session, predecessor calls)")


def digest(obj):
    import numpy as np
    import xarray as xr

    h = hashlib.sha1()

    def feed(o):
        if isinstance(o, xr.DataArray):
            h.update(b"DA")
            h.update(repr((o.dims, o.shape, str(o.dtype), o.name)).encode())
            h.update(repr(("lazy", o.chunks)).encode())           # an in-memory array must not come back dask-backed
            h.update(np.ascontiguousarray(np.asarray(o.values)).tobytes())
            h.update(repr(sorted(o.attrs.items())).encode())
            for c in sorted(o.coords):
                h.update(repr((c, o.coords[c].dims, sorted(o.coords[c].attrs.items()))).encode())
                h.update(np.ascontiguousarray(np.asarray(o.coords[c].values)).tobytes())
        elif isinstance(o, xr.Dataset):
            h.update(b"DS")
            h.update(repr((sorted(o.attrs.items()), list(o.variables))).encode())
            for v in o.variables:
                feed(o[v])
        elif isinstance(o, dict):
            h.update(b"DICT" + repr(len(o)).encode())
            for k, v in o.items():            # insertion order is part of the content
                h.update(repr(k).encode())
                feed(v)
        elif isinstance(o, (list, tuple)):
            h.update(b"SEQ" + type(o).__name__.encode() + repr(len(o)).encode())
            for v in o:
                feed(v)
        elif isinstance(o, np.ndarray):
            h.update(b"ND" + repr((o.shape, str(o.dtype))).encode() + np.ascontiguousarray(o).tobytes())
        else:
            h.update(repr(o).encode())

    feed(obj)
    return h.hexdigest()[:16]


def grid_settings(grid):
    """the Grid's own settings through its public surface (axes, positions, rules, fill values, default shifts), plus
    the metric registry and the face-connection table where the implementation exposes them"""
    out = []
    for n, ax in grid.axes.items():
        out.append((n, dict(ax.coords), ax.boundary, ax.fill_value, dict(ax.default_shifts)))
    reg = getattr(grid, "_metrics", None)
    if isinstance(reg, dict):
        out.append(sorted((tuple(sorted(k)), [str(getattr(m, "name", m)) for m in v]) for k, v in reg.items()))
    out.append(repr(getattr(grid, "_face_connections", None)))
    return digest(out)


def fixture():
    import numpy as np
    import xarray as xr
    import xgcm

    rs = np.random.RandomState(7)
    nx, ny = 4, 3
    ds = xr.Dataset(coords={"xc": ("xc", np.arange(nx) + 0.5, {"units": "m"}), "xl": ("xl", np.arange(nx) * 1.0),
                            "xo": ("xo", np.arange(nx + 1) * 1.0), "yc": ("yc", np.arange(ny) + 0.5), "yl": ("yl", np.arange(ny) * 1.0),
                            "lon": (("yc", "xc"), rs.rand(ny, nx))})
    for name, dims in [("dx_c", ("xc",)), ("dx_l", ("xl",)), ("dx_o", ("xo",)), ("dy_c", ("yc",)), ("dy_l", ("yl",)),
                       ("area_c", ("yc", "xc")), ("dx_c2", ("xc",))]:
        ds[name] = xr.DataArray(rs.randint(1, 5, size=[ds.sizes[d] for d in dims]).astype(float), dims=dims)
    coords = {"X": {"center": "xc", "left": "xl", "outer": "xo"}, "Y": {"center": "yc", "left": "yl"}}
    G = xgcm.Grid(ds, coords=coords, periodic=False, autoparse_metadata=False,
                  metrics={("X",): ["dx_c", "dx_l", "dx_o"], ("Y",): ["dy_c", "dy_l"], ("X", "Y"): ["area_c"]})
    da = xr.DataArray(rs.randint(-9, 9, size=(ny, nx)).astype(float), dims=("yc", "xc"), name="temp", attrs={"long_name": "T"},
                      coords={"xc": ds.xc, "yc": ds.yc, "lon": ds.lon})
    dal = xr.DataArray(rs.randint(-9, 9, size=(ny, nx)).astype(float), dims=("yc", "xl"), name="u0")
    # face-connected grid: two faces, face 0 right edge along X joins face 1 along Y (axis-swapping link)
    N = 3
    dsf = xr.Dataset(coords={"face": ("face", [0, 1]), "x": ("x", np.arange(N) + 0.5), "xg": ("xg", np.arange(N) * 1.0),
                             "y": ("y", np.arange(N) + 0.5), "yg": ("yg", np.arange(N) * 1.0)})
    fc = {"face": {0: {"X": (None, (1, "Y", False))}, 1: {"Y": ((0, "X", False), None)}}}
    F = xgcm.Grid(dsf, coords={"X": {"center": "x", "left": "xg"}, "Y": {"center": "y", "left": "yg"}}, periodic=False,
                  face_connections=fc, autoparse_metadata=False)
    u = xr.DataArray(rs.randint(-9, 9, size=(2, N, N)).astype(float), dims=("face", "y", "xg"), name="u")
    v = xr.DataArray(rs.randint(-9, 9, size=(2, N, N)).astype(float), dims=("face", "yg", "x"), name="v")
    sc = xr.DataArray(rs.randint(-9, 9, size=(2, N, N)).astype(float), dims=("face", "y", "x"), name="s")
    # vertical grid for transform
    nz = 4
    dsz = xr.Dataset(coords={"zc": ("zc", np.arange(nz) + 0.5), "zo": ("zo", np.arange(nz + 1) * 1.0)})
    Z = xgcm.Grid(dsz, coords={"Z": {"center": "zc", "outer": "zo"}}, periodic=False, autoparse_metadata=False)
    daz = xr.DataArray(rs.randint(-9, 9, size=(2, nz)).astype(float), dims=("col", "zc"), name="phi")
    tdata = xr.DataArray(np.tile(np.arange(nz) * 2.0 + 1, (2, 1)), dims=("col", "zc"))           # anonymous on purpose
    tdata_o = xr.DataArray(np.tile(np.arange(nz + 1) * 2.0, (2, 1)), dims=("col", "zo"), name="theta")
    # a dataset annotated per COMODO, with the shift attribute in the spellings the parser tolerates (text, a sequence)
    dsc = xr.Dataset(coords={"xc": ("xc", np.arange(nx) + 0.5, {"axis": "X"}),
                             "xg": ("xg", np.arange(nx) * 1.0, {"axis": "X", "c_grid_axis_shift": "-0.5"}),
                             "zc": ("zc", np.arange(3) + 0.5, {"axis": "Z"}),
                             "zo": ("zo", np.arange(4) * 1.0, {"axis": "Z", "c_grid_axis_shift": [-0.5]})})
    # a grid whose registered metric has a missing value (a land cell) at the array's own position
    dsn = xr.Dataset(coords={"xc": ("xc", np.arange(nx) + 0.5), "xl": ("xl", np.arange(nx) * 1.0)})
    dsn["dxn_c"] = ("xc", np.array([1.0, np.nan, 2.0, 4.0]))
    dsn["dxn_l"] = ("xl", np.array([1.0, 3.0, 2.0, 4.0]))
    GN = xgcm.Grid(dsn, coords={"X": {"center": "xc", "left": "xl"}}, periodic=False, autoparse_metadata=False,
                   metrics={("X",): ["dxn_c", "dxn_l"]})
    dan = xr.DataArray(np.array([3.0, 1.0, 4.0, 1.0]), dims=("xc",), name="tn")
    u_lazy = u.chunk({"face": 1})
    objs = {
        "dsn": dsn, "dan": dan, "u_lazy": u_lazy, "vecdict_lazy": {"X": u_lazy}, "other_mem": {"Y": v},
        "dsc": dsc,
        "da": da, "dal": dal, "ds": ds, "dsf": dsf, "dsz": dsz, "u": u, "v": v, "sc": sc, "daz": daz, "tdata": tdata, "tdata_o": tdata_o,
        "vecdict": {"X": u}, "other": {"Y": v}, "vec2": {"X": u, "Y": v}, "vecplain": {"X": dal}, "otherplain": {"Y": dal},
        "bdict": {"X": "fill", "Y": "extend"}, "fdict": {"X": 1.0, "Y": 2.0}, "todict": {"X": "left", "Y": "left"},
        "mwdict": {"X": ("X",)}, "bw": {"X": (1, 1)}, "target": np.array([1.0, 2.5, 4.0, 6.0]), "bins": np.array([0.0, 2.0, 5.0, 8.0]),
        "c_coords": {"X": {"center": "xc", "left": "xl"}, "Y": {"center": "yc", "left": "yl"}},
        "c_boundary": {"X": "fill"}, "c_boundary_full": {"X": None, "Y": "extend"}, "c_fill": {"Y": 3.0}, "c_periodic": ["Y"], "c_metrics": {("X",): ["dx_c", "dx_l"], ("Y",): ["dy_c"]},
        "c_shifts": {"X": {"center": "left"}},
        "c_fc": {"face": {0: {"X": (None, (1, "Y", False))}, 1: {"Y": ((0, "X", False), None)}}},
        "c_fcoords": {"X": {"center": "x", "left": "xg"}, "Y": {"center": "y", "left": "yg"}},
    }
    return {"G": G, "F": F, "Z": Z, "GN": GN, "objs": objs}


def _stencil3(a):
    return a[..., 2:] - a[..., :-2]


def _stencil3_x_of_xy(a):
    # core dims (X, Y) last: three-point stencil along X
    return a[..., 2:, :] - a[..., :-2, :]


def catalogue():
    import xgcm
    from xgcm.padding import pad

    def ctor(e):
        o = e["objs"]
        g = xgcm.Grid(o["ds"], coords=o["c_coords"], periodic=o["c_periodic"], boundary=o["c_boundary"], fill_value=o["c_fill"],
                      default_shifts=o["c_shifts"], metrics=o["c_metrics"], autoparse_metadata=False)
        return grid_settings(g)

    def ctor_face(e):
        o = e["objs"]
        g = xgcm.Grid(o["dsf"], coords=o["c_fcoords"], periodic=False, face_connections=o["c_fc"], boundary=o["bdict"],
                      autoparse_metadata=False)
        return grid_settings(g)

    def ctor_full(e):
        # a boundary mapping that names every axis, one of them with None ("nothing chosen for this one")
        o = e["objs"]
        g = xgcm.Grid(o["ds"], coords=o["c_coords"], periodic=False, boundary=o["c_boundary_full"], autoparse_metadata=False)
        return grid_settings(g)

    def ctor_autoparse(e):
        g = xgcm.Grid(e["objs"]["dsc"], periodic=False)
        return grid_settings(g)

    C = {
        "ctor_autoparse": ctor_autoparse,
        "ctor_full": ctor_full,
        "diff_multi": lambda e: e["G"].diff(e["objs"]["da"], ["X", "Y"], to=e["objs"]["todict"], boundary=e["objs"]["bdict"], fill_value=e["objs"]["fdict"]),
        "interp_str": lambda e: e["G"].interp(e["objs"]["da"], "X"),
        "max_extend": lambda e: e["G"].max(e["objs"]["da"], ["Y"], boundary="extend"),
        "min_outer": lambda e: e["G"].min(e["objs"]["da"], "X", to="outer", boundary=e["objs"]["bdict"]),
        "cumsum_multi": lambda e: e["G"].cumsum(e["objs"]["da"], ["X", "Y"], to=e["objs"]["todict"], boundary=e["objs"]["bdict"], fill_value=e["objs"]["fdict"]),
        "derivative": lambda e: e["G"].derivative(e["objs"]["da"], "X"),
        "integrate": lambda e: e["G"].integrate(e["objs"]["da"], ["X", "Y"]),
        "average": lambda e: e["G"].average(e["objs"]["da"], ["Y"]),
        "cumint": lambda e: e["G"].cumint(e["objs"]["da"], "X", boundary="fill"),
        "weighted": lambda e: e["G"].diff(e["objs"]["da"], "X", metric_weighted=e["objs"]["mwdict"], boundary=e["objs"]["bdict"]),
        "get_metric": lambda e: e["G"].get_metric(e["objs"]["da"], ("X", "Y")),
        "get_metric_interp": lambda e: e["G"].get_metric(e["objs"]["dal"], ("X", "Y")),
        "interp_like": lambda e: e["G"].interp_like(e["objs"]["ds"]["dx_l"], e["objs"]["da"]),
        "pad": lambda e: pad(e["objs"]["da"], e["G"], boundary_width=e["objs"]["bw"], boundary=e["objs"]["bdict"], fill_value=e["objs"]["fdict"]),
        "ufunc": lambda e: e["G"].apply_as_grid_ufunc(_stencil3, e["objs"]["da"], axis=[("X",)], signature="(X:center)->(X:center)",
                                                      boundary_width=e["objs"]["bw"], boundary=e["objs"]["bdict"], fill_value=e["objs"]["fdict"]),
        # a signature over two axes with widths given for one of them only (the same mapping object the one-axis call uses)
        "ufunc_2ax": lambda e: e["G"].apply_as_grid_ufunc(_stencil3_x_of_xy, e["objs"]["da"], axis=[("X", "Y")],
                                                          signature="(X:center,Y:center)->(X:center,Y:center)",
                                                          boundary_width=e["objs"]["bw"], boundary=e["objs"]["bdict"], fill_value=e["objs"]["fdict"]),
        "vec_diff": lambda e: e["F"].diff(e["objs"]["vecdict"], "X", other_component=e["objs"]["other"]),
        "vec_interp": lambda e: e["F"].interp(e["objs"]["vecdict"], "X", other_component=e["objs"]["other"], boundary=e["objs"]["bdict"]),
        "diff_2d_vector": lambda e: e["F"].diff_2d_vector(e["objs"]["vec2"], boundary="fill"),
        "face_scalar": lambda e: e["F"].interp(e["objs"]["sc"], "Y", to="left", boundary=e["objs"]["bdict"]),
        "face_pad": lambda e: pad(e["objs"]["vecdict"], e["F"], boundary_width={"X": (0, 2), "Y": (1, 0)}, other_component=e["objs"]["other"]),
        "vec_plain": lambda e: e["G"].diff(e["objs"]["vecplain"], "X", other_component=e["objs"]["otherplain"]),
        "transform_linear": lambda e: e["Z"].transform(e["objs"]["daz"], "Z", e["objs"]["target"], target_data=e["objs"]["tdata"]),
        "transform_cons": lambda e: e["Z"].transform(e["objs"]["daz"], "Z", e["objs"]["bins"], target_data=e["objs"]["tdata_o"], method="conservative"),
        # a call that carries its own rule and fill value and is refused on its SECOND axis (Y has no outer position)
        "raise_late_with_options": lambda e: e["G"].diff(e["objs"]["da"], ["X", "Y"], to={"X": "left", "Y": "outer"}, boundary="extend",
                                                          fill_value=5.0),
        # metric-aware calls on the grid whose metric holds a missing value (answered or refused, nothing may be written)
        "average_nan_metric": lambda e: e["GN"].average(e["objs"]["dan"], "X"),
        "derivative_nan_metric": lambda e: e["GN"].derivative(e["objs"]["dan"], "X"),
        "integrate_nan_metric": lambda e: e["GN"].integrate(e["objs"]["dan"], "X"),
        # a lazy component next to an in-memory partner
        "vec_lazy_mem": lambda e: e["F"].diff(e["objs"]["vecdict_lazy"], "X", other_component=e["objs"]["other_mem"]),
        "raise_same_pos": lambda e: e["G"].diff(e["objs"]["da"], "X", to="center", boundary=e["objs"]["bdict"]),
        "raise_axis": lambda e: e["G"].interp(e["objs"]["da"], ["X", "Q"], to=e["objs"]["todict"]),
        "ctor": ctor,
        "ctor_face": ctor_face,
    }
    return C


def result_digest(fn, env):
    import warnings

    try:
        with warnings.catch_warnings():
            warnings.simplefilter("ignore")
            r = fn(env)
        if hasattr(r, "compute"):
            r = r.compute()
        return digest(r)
    except Exception as ex:
        return "raise:" + type(ex).__name__


def snapshot(env):
    objs = sorted((k, digest(v)) for k, v in env["objs"].items())
    settings = [grid_settings(env[g]) for g in ("G", "F", "Z", "GN")]
    return [list(x) for x in objs], settings


def run_session(job):
    import dask

    dask.config.set(scheduler="synchronous")          # forked workers: no thread pools
    sid, seq, refs = job
    C = catalogue()
    env = fixture()
    recs = []
    for step, cid in enumerate(seq):
        pre, spre = snapshot(env)
        res = result_digest(C[cid], env)
        post, spost = snapshot(env)
        recs.append({"session": sid, "step": step + 1, "call": cid, "pre": pre, "post": post, "settings_pre": spre,
                     "settings_post": spost, "result": res, "reference": refs[cid], "seq": list(seq)})
    return recs


def reference(_):
    import dask

    dask.config.set(scheduler="synchronous")
    C = catalogue()
    return {cid: result_digest(fn, fixture()) for cid, fn in C.items()}


def classify(rec, clauses):
    cl = "+".join(sorted(set(clauses)))
    changed = [a[0] for a, b in zip(rec["pre"], rec["post"]) if a != b]
    return f"session-{cl}:{rec['call']}" + (":" + "+".join(changed) if changed else "")


def run(ctx):
    thorough = ctx.tier == "thorough"
    ctx.mc("Xgcm", "MC_Xgcm.cfg", workers=8)
    refs = ctx.pmap(reference, [0], procs=1)[0]
    ids = sorted(refs)
    rng = random.Random(ctx.seed * 295075147 + 18)
    seqs = [(a,) for a in ids] + [(a, b) for a in ids for b in ids]
    if thorough:
        triples = [(a, b, c) for a in ids for b in ids for c in ids]
        seqs += rng.sample(triples, 6000)
    else:
        seqs += [tuple(rng.choice(ids) for _ in range(3)) for _ in range(120)]
    jobs = [(k + 1, s, refs) for k, s in enumerate(seqs)]
    out = ctx.pmap(run_session, jobs, chunksize=8)
    recs = [r for rs in out for r in rs]
    for k, r in enumerate(recs):
        r["id"] = k + 1
        r["ev"] = "Call"
    bad = ctx.validate("C18Trace", recs, jvms=16 if thorough else 8, chunk=1500)
    for r in recs:
        ctx.nontrivial.add((r["call"], r["step"], tuple(r["seq"][: r["step"] - 1])))
        if r["id"] in bad:
            ctx.reject(classify(r, bad[r["id"]]), f"spec rejects step {r['step']} ({r['call']}) of session {r['seq']}: {bad[r['id']]}", r)
    # whole dataflow sessions with registry changes in between, against the stateful Session specification
    from .. import session as dataflow

    ctx.mc("MC_Session", "MC_Session.cfg", workers=4)
    srecs, _ = dataflow.run(ctx, 3000 if thorough else 150)
    ctx.evaluations = len(recs) + len(srecs)
    ctx.extra["sessions"] = len(seqs)
    ctx.extra["catalogue"] = ids
    ctx.extra["calls_that_raise_in_reference"] = sorted(c for c, d in refs.items() if d.startswith("raise:"))

    def corrupt(r):
        if r["step"] == 1:
            r["post"][0][1] = "0" * 16
        else:
            r["result"] = "f" * 16
        return True

    ctx.selftest_corrupt("C18Trace", recs, bad, corrupt=corrupt, kind=lambda r: r["step"], per_kind=2)
    r = recs[-1]
    ctx.sample({"session": r["seq"], "step": r["step"], "call": r["call"], "result": r["result"], "reference": r["reference"],
                "objects": [p[0] for p in r["pre"]]})
    ctx.assumptions += ["an object is 'unchanged' when the sha1 digest of its values, dims, coords, attrs, name / keys and insertion order is unchanged"]


def replay(ctx, rp):
    from ..core import setup_import_path

    setup_import_path()
    refs = reference(0)
    recs = []
    for c in rp["cases"]:
        recs += run_session((c["session"], tuple(c["seq"]), refs))
    for k, r in enumerate(recs):
        r["id"] = k + 1
        r["ev"] = "Call"
    bad = ctx.validate("C18Trace", recs)
    for r in recs:
        if r["id"] in bad:
            ctx.reject(classify(r, bad[r["id"]]), f"spec rejects step: {bad[r['id']]}", r)
