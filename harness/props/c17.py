"""C17: Grid construction accepts exactly the reciprocal face-connection tables."""
import copy
import itertools
import random

from .. import faces, model

LEVEL = "model_checking"
RULE = ("records = Grid(ds, face_connections=table) for all 625 tables over 2 faces x 1 axis, every single and double "
        "edit (retarget face incl. out of range, retarget axis incl. unknown, flip reverse, delete, insert) of "
        "consistent 2-face x 2-axis and 3-face tables, consistent renamings of an axis / a face to one the grid lacks, random consistent tables up to 6 faces with self links, tables "
        "with two face dimensions or a face dimension missing from the dataset; non-trivial = distinct tables"
        ' Also: consistent renamings of an axis / a face to one the grid lacks (incl. negative aliases), a face dimension without coordinate variable, a face key naming a coordinate or data variable.')

AXES = ["a1", "a2"]


def all_625():
    vals = [None] + [(g, rv) for g in (0, 1) for rv in (False, True)]
    out = []
    for combo in itertools.product(vals, repeat=4):
        entries = []
        for (f, sd), v in zip([(0, 0), (0, 1), (1, 0), (1, 1)], combo):
            if v is not None:
                entries.append([f, "a1", sd, v[0], "a1", v[1]])
        out.append((2, ["a1"], entries))
    return out


def edits(entries, nfaces, axes):
    """every single edit of a table"""
    out = []
    for k, e in enumerate(entries):
        for nf in list(range(nfaces)) + [nfaces, -1]:  # nfaces, -1 = faces that do not exist
            if nf != e[3]:
                out.append(entries[:k] + [[e[0], e[1], e[2], nf, e[4], e[5]]] + entries[k + 1:])
        for na in axes + ["a9"]:  # a9 = an axis the grid lacks
            if na != e[4]:
                out.append(entries[:k] + [[e[0], e[1], e[2], e[3], na, e[5]]] + entries[k + 1:])
        out.append(entries[:k] + [[e[0], e[1], e[2], e[3], e[4], not e[5]]] + entries[k + 1:])
        out.append(entries[:k] + entries[k + 1:])
    used = {(e[0], e[1], e[2]) for e in entries}
    for f in range(nfaces):
        for a in axes:
            for sd in (0, 1):
                if (f, a, sd) not in used:
                    for nf in range(nfaces):
                        for na in axes:
                            for rv in (False, True):
                                out.append(sorted(entries + [[f, a, sd, nf, na, rv]], key=lambda x: (x[0], x[1], x[2])))
    return out


def base_tables(rng):
    bases = []
    for K, per in [((2, 1), (True, False)), ((2, 1), (True, True)), ((1, 2), (False, True))]:
        for _ in range(2):
            while True:
                orient = faces.random_orient(rng, 2)
                entries, ok = faces.derive_table(K, per, orient)
                if ok:
                    bases.append((2, AXES, entries))
                    break
    for _ in range(2):
        bases.append((3, AXES, faces.random_pairing(rng, 3, p_link=0.6)))
    return bases


def gen_cases(rng, thorough):
    cases = []
    for nf, axes, entries in all_625():
        cases.append({"nfaces": nf, "axes": axes, "table": entries, "nfacedims": 1, "facedim_in_ds": True})
    for nf, axes, entries in base_tables(rng):
        singles = edits(entries, nf, axes)
        for t in singles:
            cases.append({"nfaces": nf, "axes": axes, "table": t, "nfacedims": 1, "facedim_in_ds": True})
        doubles = []
        for t in rng.sample(singles, min(len(singles), 40 if thorough else 6)):
            doubles += edits(t, nf, axes)
        if not thorough:
            doubles = rng.sample(doubles, min(len(doubles), 150))
        for t in doubles:
            cases.append({"nfaces": nf, "axes": axes, "table": t, "nfacedims": 1, "facedim_in_ds": True})
    for _ in range(2000 if thorough else 150):
        nf = rng.randint(1, 6)
        t = faces.random_pairing(rng, nf, p_link=rng.choice([0.5, 0.8, 1.0]))
        c = {"nfaces": nf, "axes": AXES, "table": t, "nfacedims": 1, "facedim_in_ds": True}
        r = rng.random()
        if r > 0.85 and t:
            # one face renumbered throughout: beyond the face dimension, or to the negative number that positional
            # indexing would wrap back to it
            f = rng.randrange(nf)
            g = rng.choice([nf + rng.randint(0, 2), f - nf])
            c["table"] = [[g if e[0] == f else e[0], e[1], e[2], g if e[3] == f else e[3], e[4], e[5]] for e in t]
        if r < 0.08:
            c["nfacedims"] = 2
        elif r < 0.16:
            c["facedim_in_ds"] = False
            # the key names nothing at all, or something that exists in the dataset but is not a dimension: a coordinate
            # along the real face dimension (holding the very face numbers), or a data variable
            c["facedim_kind"] = rng.choice(["missing", "coord", "var"])
        cases.append(c)
    # tables that are reciprocal in themselves but speak of an axis the grid lacks, or of a face beyond the face
    # dimension, on BOTH ends of their links (a consistent renaming of a good table)
    for nf, axes, entries in base_tables(rng) + [(2, ["a1"], [[0, "a1", 1, 1, "a1", False], [1, "a1", 0, 0, "a1", False]])]:
        for a in axes:
            t = [[e[0], "a9" if e[1] == a else e[1], e[2], e[3], "a9" if e[4] == a else e[4], e[5]] for e in entries]
            cases.append({"nfaces": nf, "axes": axes, "table": t, "nfacedims": 1, "facedim_in_ds": True})
        for f in range(nf):
            # nf + 1: beyond the face dimension; f - nf: a negative number (which positional indexing would wrap to f)
            for g in (nf + 1, f - nf):
                t = [[g if e[0] == f else e[0], e[1], e[2], g if e[3] == f else e[3], e[4], e[5]] for e in entries]
                cases.append({"nfaces": nf, "axes": axes, "table": t, "nfacedims": 1, "facedim_in_ds": True})
    for k, c in enumerate(cases):
        c["id"] = k + 1
        c["ev"] = "Construct"
        c["facecoord"] = rng.random() < 0.7      # the face dimension with or without a coordinate variable in the dataset
        # the faces may be labelled otherwise than 0..n-1 (1-based tile numbers, a subset of the tiles of a larger
        # grid): the table then speaks of the LABELS; in the record it stays in terms of 0..n-1
        c["label_offset"] = rng.choice([0, 0, 1, 1, 7]) if c["facecoord"] and c["facedim_in_ds"] else 0
    return cases


def execute(case):
    import numpy as np
    import xarray as xr
    import xgcm

    rec = dict(case)
    nf = case["nfaces"]
    off = case.get("label_offset", 0)
    coords = {"d9": ("d9", np.arange(nf) + off)} if case.get("facecoord", True) else {}
    for d in ("d1", "d2", "d4", "d5"):
        coords[d] = (d, np.arange(3.0))
    ds = xr.Dataset(coords=coords)
    if not case.get("facecoord", True):
        ds["v0"] = (("d9", "d1"), np.zeros((nf, 3)))           # the dimension exists, without a coordinate
    kind = case.get("facedim_kind", "missing")
    if not case["facedim_in_ds"] and kind == "coord":
        ds = ds.assign_coords(facelabel=("d9", np.arange(nf)))
    if not case["facedim_in_ds"] and kind == "var":
        ds["facemask"] = ("d9", np.arange(nf))
    table = [[e[0] + off, e[1], e[2], e[3] + off, e[4], e[5]] for e in case["table"]]
    fc = faces.fc_dict(table, nf, "d9" if case["facedim_in_ds"] else {"missing": "d_missing", "coord": "facelabel", "var": "facemask"}[kind],
                       order=case.get("order"))
    if case["nfacedims"] == 2:
        fc["d_second"] = {0: {}}
    gc = {"a1": {"center": "d1", "left": "d2"}}
    if "a2" in case["axes"]:
        gc["a2"] = {"center": "d4", "left": "d5"}
    try:
        xgcm.Grid(ds, coords=gc, face_connections=fc, autoparse_metadata=False)
        rec["out"] = {"k": "constructed"}
    except Exception as ex:
        rec["out"] = model.encode_error(ex)
    return rec


def classify(rec, clauses):
    return "construct-" + "+".join(sorted(set(clauses)))


def run(ctx):
    thorough = ctx.tier == "thorough"
    ctx.mc("MC_Recip", "MC_Recip.cfg", workers=8)
    ctx.mc("MC_FaceTopology", "MC_FaceTopology_thorough.cfg" if thorough else "MC_FaceTopology_quick.cfg")
    rng = random.Random(ctx.seed * 86028121 + 17)
    cases = gen_cases(rng, thorough)
    recs = ctx.pmap(execute, cases, chunksize=32)
    bad = ctx.validate("C17Trace", recs, jvms=8, chunk=2000)
    acc = 0
    for r in recs:
        ctx.nontrivial.add((r["nfaces"], tuple(map(tuple, r["table"])), r["nfacedims"], r["facedim_in_ds"]))
        acc += r["out"]["k"] == "constructed"
        if r["id"] in bad:
            ctx.reject(classify(r, bad[r["id"]]), f"spec rejects record: {bad[r['id']]}", r)
    ctx.evaluations = len(recs)
    ctx.extra["constructed"] = acc
    ctx.extra["refused"] = len(recs) - acc
    ctx.extra["exhaustive_625_two_face_tables"] = True

    def corrupt(r):
        r["out"] = {"k": "error", "cls": "X", "msg": ""} if r["out"]["k"] == "constructed" else {"k": "constructed"}
        return True

    ctx.selftest_corrupt("C17Trace", recs, bad, corrupt=corrupt, kind=lambda r: r["out"]["k"])
    ctx.sample({"table": recs[700]["table"], "nfaces": recs[700]["nfaces"], "out": recs[700]["out"]})
    ctx.sample({"table": recs[-1]["table"], "nfaces": recs[-1]["nfaces"], "out": recs[-1]["out"]})


def replay(ctx, rp):
    from ..core import setup_import_path

    setup_import_path()
    recs = [execute({k: v for k, v in c.items() if k != "out"}) for c in rp["cases"]]
    bad = ctx.validate("C17Trace", recs)
    for r in recs:
        if r["id"] in bad:
            ctx.reject(classify(r, bad[r["id"]]), f"spec rejects record: {bad[r['id']]}", r)
