"""X01 (beyond the listed properties, not registered in MANIFEST.json): Grid.interp_like against spec/X01Trace.tla.
Run with ./check X01; evidence goes to evidence/extras/, deviations are printed as DEVIATION lines (never VIOLATION:
no listed property speaks about interp_like on its own)."""
import random

from .. import gen, model
from ..model import SHIFTS, plen
from . import c01

LEVEL = "model_checking"
RULE = ("records = real Grid.interp_like(array, like, boundary, fill_value) calls on random simple grids (1-3 axes): per axis the "
        "two arrays stand at the same position, at positions one of the eight shifts apart, or one of them lacks the axis; "
        "extra dims in any order on either array; rule and fill per call or grid default; the spec derives the axes to "
        "interpolate from the two dimension lists and recomputes the result geometrically")


def gen_case(rng, cid):
    while True:
        base = c01.gen_case(rng, cid, ops=["interp"], ev="InterpLike", maxelems=80)
        g, data = base["grid"], base["args"]["data"]
        like, nsteps = [], 0
        for ax in g["axes"]:
            present = [p for p, _ in ax["pos"]]
            dmap = dict(ax["pos"])
            have = [p for p, d in ax["pos"] if d in data["dims"]]
            r = rng.random()
            if have:
                cands = [t for t in present if (have[0], t) in SHIFTS]
                if r < 0.55 and cands:
                    like.append([dmap[rng.choice(cands)], 0])
                    nsteps += 1
                elif r < 0.8:
                    like.append([dmap[have[0]], 0])
            elif r < 0.4:
                like.append([dmap[rng.choice(present)], 0])
        for d, L in g["extra"]:
            if rng.random() < 0.5:
                like.append([d, L])
        if rng.random() < 0.3:
            like.append(["dlike", 2])            # a dimension only `like` has
        rng.shuffle(like)
        sizes = {d: plen(p, a["n"]) for a in g["axes"] for p, d in a["pos"]}
        like = [[d, sizes.get(d, L)] for d, L in like]
        return {"id": cid, "ev": "InterpLike", "grid": g, "nsteps": nsteps,
                "args": {"data": data, "like_dims": [d for d, _ in like], "like_shape": [L for _, L in like],
                         "boundary": base["args"]["boundary"], "fill_value": base["args"]["fill_value"]}}


def execute(case):
    import numpy as np
    import xarray as xr

    nm = model.Names(case["grid"].get("names"))
    rec = dict(case)
    try:
        grid, ds = model.make_grid(case["grid"])
        a = case["args"]
        da = model.make_array(a["data"], nm, ds, name=nm("v1"))
        like = xr.DataArray(np.zeros(a["like_shape"]), dims=[nm(d) for d in a["like_dims"]])
        kw = model.call_kwargs({k: a[k] for k in ("boundary", "fill_value")}, nm)
        res = grid.interp_like(da, like, **kw)
        rec["out"] = model.encode_result(res, 2 ** case["nsteps"], nm)
    except model.Inexact as ex:
        rec["out"] = {"k": "error", "cls": "Inexact", "msg": str(ex)}
    except Exception as ex:
        rec["out"] = model.encode_error(ex)
    return rec


def classify(rec, clauses):
    return "interp_like-" + "+".join(sorted(set(clauses)))


def run(ctx):
    thorough = ctx.tier == "thorough"
    # theorems about where the array lands (every one- and two-axis grid, every pair of positions); the unguarded
    # variant must be refuted (left -> right is not a shift)
    ctx.mc("MC_InterpLike", "MC_InterpLike.cfg", workers=4)
    ctx.mc("MC_InterpLike", "MC_InterpLike_refute.cfg", workers=4, expect_violation="LandsOnLike")
    rng = random.Random(ctx.seed * 15485863 + 101)
    cases = [gen_case(rng, k + 1) for k in range(12000 if thorough else 1500)]
    recs = ctx.pmap(execute, cases)
    bad = ctx.validate("X01Trace", recs, jvms=16 if thorough else 8)
    for r in recs:
        ctx.nontrivial.add((r["nsteps"], len(r["args"]["data"]["dims"]), len(r["args"]["like_dims"]), r["args"]["boundary"]["k"]))
        if r["id"] in bad:
            ctx.reject(classify(r, bad[r["id"]]), f"spec rejects record: {bad[r['id']]}", r)
    ctx.evaluations = len(recs)
    ctx.extra["records_by_number_of_interpolated_axes"] = {str(k): sum(1 for r in recs if r["nsteps"] == k) for k in range(4)}

    def corrupt(r):
        if r["out"]["k"] == "array" and r["out"]["flat"]:
            r["out"]["flat"] = [v + 1 for v in r["out"]["flat"]]
            return True
        return False

    ctx.selftest_corrupt("X01Trace", recs, bad, corrupt=corrupt)
    r = next((x for x in recs if x["nsteps"] >= 1), recs[0])
    ctx.sample({"data_dims": r["args"]["data"]["dims"], "like_dims": r["args"]["like_dims"], "out_dims": r["out"].get("dims"),
                "out": r["out"].get("flat", r["out"])})
    ctx.assumptions += ["not a listed property: an extension of the specification's coverage (interp_like is what get_metric uses to move metrics, C10)"]


def replay(ctx, rp):
    recs = [execute({k: v for k, v in c.items() if k != "out"}) for c in rp["cases"]]
    bad = ctx.validate("X01Trace", recs)
    for r in recs:
        if r["id"] in bad:
            ctx.reject(classify(r, bad[r["id"]]), f"spec rejects record: {bad[r['id']]}", r)
