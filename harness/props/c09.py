"""C09: cumsum is the geometric running sum; inverse of diff; order independence; cumint / integrate."""
import random

from .. import gen, model
from ..model import M, NONE, S, plen
from . import c01

LEVEL = "model_checking"
RULE = ("records = real Grid.cumsum calls (as C01's generator, op=cumsum, plus exhaustive one-axis table), "
        "diff(cumsum(.., to=outer, fill 0)) round trips, two-order multi-axis cumsums, cumint+integrate pairs with "
        "non-uniform integer metrics; non-trivial = distinct (event, per-axis shift, rule, ndim) classes")


def exec_cumsum(case):
    return c01.execute(case)


def gen_inverse(rng, cid):
    """x on centre -> cumsum to outer with zero fill -> diff back to centre"""
    while True:
        c = c01.gen_case(rng, cid, ops=["cumsum"], ev="CumsumDiff")
        ok = True
        for ax in c["grid"]["axes"]:
            if ax["name"] in c["args"]["axis"]:
                pos = dict(ax["pos"])
                if "outer" not in pos or pos["center"] not in c["args"]["data"]["dims"]:
                    ok = False
        if ok:
            c["args"]["to"] = S("outer")
            c["args"]["boundary"] = S("fill")
            c["args"]["fill_value"] = S(0)
            return c


def exec_inverse(case):
    nm = model.Names(case["grid"].get("names"))
    rec = dict(case)
    try:
        grid, ds = model.make_grid(case["grid"])
        da = model.make_array(case["args"]["data"], nm, ds, name="v1")
        axis = [nm(a) for a in case["args"]["axis"]]
        if case["args"].get("axis_as_tuple"):
            axis = tuple(axis)
        cs = grid.cumsum(da, axis, to="outer", boundary="fill", fill_value=0)
        back = grid.diff(cs, axis, to="center")
        rec["out"] = model.encode_result(back, 1, nm)
    except Exception as ex:
        rec["out"] = model.encode_error(ex)
    return rec


def gen_order(rng, cid):
    while True:
        c = c01.gen_case(rng, cid, ops=["cumsum"], ev="CumsumOrder")
        if len(c["args"]["axis"]) >= 2:
            ax2 = list(c["args"]["axis"])
            while ax2 == c["args"]["axis"]:
                rng.shuffle(ax2)
            c["axis2"] = ax2
            # two thirds of the cases without a non-zero fill so that the agreement clause is exercised
            if rng.random() < 0.66:
                c["args"]["fill_value"] = S(0)
                c["grid"]["ctor"]["fill_value"] = NONE
            return c


def exec_order(case):
    rec = c01.execute(case)
    c2 = dict(case)
    c2["args"] = dict(case["args"], axis=case["axis2"])
    rec["out2"] = c01.execute(c2)["out"]
    return rec


def gen_cumint_square(rng, cid):
    """two operated axes of EQUAL length, data on exactly their two dimensions, the metric stored with the same two
    dimensions in the other order (same shape, another meaning of the positions in the buffer)"""
    n = rng.randint(2, 4)
    pos = rng.choice(["left", "right"])
    axes = [{"name": f"a{k + 1}", "n": n, "pos": [["center", f"d{2 * k + 1}"], [pos, f"d{2 * k + 2}"]]} for k in range(2)]
    ctor = gen.rand_ctor(rng, ["a1", "a2"])
    dims = ["d1", "d3"]
    rng.shuffle(dims)
    axis = ["a1", "a2"]
    rng.shuffle(axis)
    data = {"dims": dims, "shape": [n, n], "flat": [rng.randint(-4, 4) for _ in range(n * n)]}
    return {"id": cid, "ev": "Cumint", "op": "cumsum", "grid": {"axes": axes, "extra": [], "ctor": ctor},
            "args": {"data": data, "axis": axis, "to": S(pos), "boundary": gen.rand_tagged(rng, ["a1", "a2"], gen.RULES, partial=True),
                     "fill_value": gen.rand_tagged(rng, ["a1", "a2"], [-3, 0, 2], partial=True)},
            "metric": {"dims": dims[::-1], "shape": [n, n], "flat": [rng.randint(1, 4) for _ in range(n * n)]}}


def gen_cumint(rng, cid):
    """one or two operated axes; a metric registered for exactly that axis set at the data's position"""
    if rng.random() < 0.12:
        return gen_cumint_square(rng, cid)
    while True:
        c = c01.gen_case(rng, cid, ops=["cumsum"], ev="Cumint", maxelems=60)
        dims = c["args"]["data"]["dims"]
        shape = c["args"]["data"]["shape"]
        axd = []
        for ax in c["grid"]["axes"]:
            if ax["name"] in c["args"]["axis"]:
                axd += [d for _, d in ax["pos"] if d in dims]
        mdims = list(axd)
        rng.shuffle(mdims)
        mshape = [shape[dims.index(d)] for d in mdims]
        size = 1
        for s in mshape:
            size *= s
        c["metric"] = {"dims": mdims, "shape": mshape, "flat": [rng.randint(1, 4) for _ in range(size)]}
        c["args"]["data"]["flat"] = [rng.randint(-4, 4) for _ in c["args"]["data"]["flat"]]
        return c


def exec_cumint(case):
    import xarray as xr

    nm = model.Names(case["grid"].get("names"))
    rec = dict(case)
    try:
        ds = model.build_dataset(case["grid"])
        met = model.make_array(case["metric"], nm)
        ds["m1"] = met
        grid, ds = model.make_grid(case["grid"], ds=ds, metrics={tuple(nm(a) for a in case["args"]["axis"]): ["m1"]})
        da = model.make_array(case["args"]["data"], nm, ds, name="v1")
        axis = [nm(a) for a in case["args"]["axis"]]
        if case["args"].get("axis_as_tuple"):
            axis = tuple(axis)
        kw = model.call_kwargs(case["args"], nm)
        rec["out"] = model.encode_result(grid.cumint(da, axis, **kw), 1, nm)
        rec["integ"] = model.encode_result(grid.integrate(da, axis), 1, nm)
    except Exception as ex:
        rec["out"] = model.encode_error(ex)
        rec["integ"] = rec["out"]
    return rec


EXEC = {"Stencil": exec_cumsum, "CumsumDiff": exec_inverse, "CumsumOrder": exec_order, "Cumint": exec_cumint}


def execute(case):
    return EXEC[case["ev"]](case)


def klass(r):
    return (r["ev"], len(r["args"]["axis"]), len(r["args"]["data"]["dims"]), r["args"]["to"]["k"],
            r["args"]["boundary"]["k"], r["grid"]["ctor"]["boundary"]["k"])


def classify(rec, clauses):
    return f"{rec['ev'].lower()}-" + "+".join(sorted(set(clauses)))


def run(ctx):
    thorough = ctx.tier == "thorough"
    ctx.mc("MC_Stencil", "MC_Stencil_thorough.cfg" if thorough else "MC_Stencil_quick.cfg")
    ctx.mc("MC_Cumsum", "MC_Cumsum_thorough.cfg" if thorough else "MC_Cumsum_quick.cfg")
    ctx.mc("MC_Cumsum", "MC_Cumsum_refute.cfg", expect_violation="CommutesUnguarded")
    ctx.mc("MC_Stencil", "MC_Stencil_specials.cfg")           # running sums with infinities among the data
    ctx.mc("MC_Stencil", "MC_Stencil_specials_refute.cfg", expect_violation="InverseAlways")     # inf - inf: the inverse needs finite data
    rng = random.Random(ctx.seed * 104729 + 9)
    k = 20 if thorough else 1
    cases, cid = [], 0
    for _ in range(700 * k):
        cid += 1
        c_ = c01.gen_case(rng, cid, ops=["cumsum"], nmax=6 if thorough else 5)
        if "dtype" not in c_["args"]["data"] and len(c_["args"]["axis"]) == 1 and rng.random() < 0.2:
            # infinities among the data of a one-axis running sum (NaN is left out, and with it a second axis that would
            # meet the NaN of inf - inf: xarray's running sum skips missing values of floating-point data, which the
            # property does not speak about)
            gen.sprinkle_specials(rng, c_["args"]["data"], nan=False)
        cases.append(c_)
    for _ in range(150 * k):
        cid += 1
        cases.append(gen_inverse(rng, cid))
    for _ in range(200 * k):
        cid += 1
        cases.append(gen_order(rng, cid))
    for _ in range(250 * k):
        cid += 1
        cases.append(gen_cumint(rng, cid))
    cases += c01.table_cases(cid + 1, nmin=2, nmax=6 if thorough else 3, ops=["cumsum"])
    recs = ctx.pmap(execute, cases)
    bad = ctx.validate("C09Trace", recs, jvms=16 if thorough else 8)
    for r in recs:
        ctx.nontrivial.add(klass(r))
        if r["id"] in bad:
            ctx.reject(classify(r, bad[r["id"]]), f"spec rejects record: {bad[r['id']]}", r)
    ctx.evaluations = len(recs)
    ctx.selftest_corrupt("C09Trace", recs, bad)
    for ev in ("Stencil", "Cumint"):
        r = next(x for x in recs if x["ev"] == ev)
        ctx.sample({"ev": ev, "axis": r["args"]["axis"], "to": r["args"]["to"], "data": r["args"]["data"], "out": r["out"]})
    ctx.assumptions += ["small integer data and metrics (float64 exact)", "TLC evaluation of the specification is trusted"]


def replay(ctx, rp):
    from ..core import setup_import_path

    setup_import_path()
    recs = [execute({k: v for k, v in c.items() if k not in ("out", "out2", "integ")}) for c in rp["cases"]]
    bad = ctx.validate("C09Trace", recs)
    for r in recs:
        if r["id"] in bad:
            ctx.reject(classify(r, bad[r["id"]]), f"spec rejects record: {bad[r['id']]}", r)
