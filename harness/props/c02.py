"""C02: constructor / per-call resolution of boundary rule and fill value; pad widths and halo values."""
import itertools
import random

from .. import gen, model
from ..model import M, NONE, S, plen

LEVEL = "model_checking"
RULE = ("Construct records: every spelling of (periodic, boundary, fill_value) for a 2-axis grid (bool / every list / "
        "total mapping; none / scalar / every partial or total mapping in both key orders); Pad records: random "
        "constructor x call spellings x asymmetric widths 0..n (and beyond the length of the dimension) x shapes and dim orders on 1-3 axis grids; "
        "non-trivial = distinct (event, spelling kinds, rule in force per axis) classes"
        ' Also: NaN among the original values, arrays shorter / longer than the dataset along a padded dimension, numpy-scalar fill values, earlier padding calls with other per-call choices on the same Grid.')

FILLS = [0, 5]


def mappings(keys, values, partial=True):
    """every mapping (as ordered pair list, every key order) from subsets of keys to values"""
    out = []
    for r in range(0 if partial else len(keys), len(keys) + 1):
        for sub in itertools.permutations(keys, r):
            for vals in itertools.product(values, repeat=r):
                out.append(M(list(zip(sub, vals))))
    return out


def ctor_spellings(axnames):
    per = [{"k": "b", "v": True}, {"k": "b", "v": False}]
    for r in range(0, len(axnames) + 1):
        for sub in itertools.permutations(axnames, r):
            per.append({"k": "l", "v": list(sub)})
    for vals in itertools.product([True, False], repeat=len(axnames)):
        per.append({"k": "m", "v": [[a, v] for a, v in zip(axnames, vals)]})
    bnd = [NONE] + [S(r) for r in gen.RULES] + mappings(axnames, gen.RULES)
    fil = [NONE] + [S(f) for f in FILLS] + mappings(axnames, FILLS)
    return per, bnd, fil


def two_axis_grid():
    return {"axes": [{"name": "a1", "n": 3, "pos": [["center", "d1"], ["left", "d2"]]},
                     {"name": "a2", "n": 2, "pos": [["center", "d3"], ["outer", "d4"]]}], "extra": []}


def construct_cases(start, rng, sample=None):
    per, bnd, fil = ctor_spellings(["a1", "a2"])
    allc = list(itertools.product(per, bnd, fil))
    if sample:
        allc = rng.sample(allc, sample)
    out = []
    for k, (p, b, f) in enumerate(allc):
        g = two_axis_grid()
        g["ctor"] = {"periodic": p, "boundary": b, "fill_value": f, "default_shifts": NONE}
        out.append({"id": start + k, "ev": "Construct", "grid": g})
    return out


def rand_spelling(rng, axnames, values, allow_partial=True):
    k = rng.choice(["none", "s", "m", "m"])
    if k == "none":
        return NONE
    if k == "s":
        return S(rng.choice(values))
    names = list(axnames)
    if allow_partial:
        names = rng.sample(names, rng.randint(0, len(names)))
    rng.shuffle(names)
    return M([(a, rng.choice(values)) for a in names])


def rand_periodic(rng, axnames):
    k = rng.choice(["bt", "bf", "l", "l", "m"])
    if k == "bt":
        return {"k": "b", "v": True}
    if k == "bf":
        return {"k": "b", "v": False}
    if k == "l":
        sub = rng.sample(axnames, rng.randint(0, len(axnames)))
        return {"k": "l", "v": sub}
    return {"k": "m", "v": [[a, rng.random() < 0.5] for a in axnames]}


def gen_pad(rng, cid, nmax=4):
    while True:
        dimctr = [0]
        naxes = rng.choice([1, 2, 2, 2, 3])
        axes = [gen.rand_axis(rng, k + 1, dimctr, nmax, need_face=False) for k in range(naxes)]
        axnames = [a["name"] for a in axes]
        extra = []
        for _ in range(rng.choice([0, 0, 1])):
            dimctr[0] += 1
            extra.append([f"d{dimctr[0]}", rng.randint(1, 2)])
        ctor = {"periodic": rand_periodic(rng, axnames), "boundary": rand_spelling(rng, axnames, gen.RULES),
                "fill_value": rand_spelling(rng, axnames, [-3, 0, 2, 7]), "default_shifts": NONE}
        dims_shape, present = [], []
        for ax in axes:
            if rng.random() < 0.85 or not present:
                p, d = rng.choice(ax["pos"])
                dims_shape.append([d, plen(p, ax["n"])])
                present.append(ax)
        dims_shape += [list(e) for e in extra]
        rng.shuffle(dims_shape)
        padded = rng.sample(present, rng.randint(1, len(present)))
        widths = []
        for ax in padded:
            L = next(s for d, s in dims_shape if d in [dd for _, dd in ax["pos"]])
            # widths may exceed the length of the dimension (a periodic halo then wraps around more than once)
            wmax = L + 2 if rng.random() < 0.25 else min(L, 3)
            widths.append([ax["name"], rng.randint(0, wmax), rng.randint(0, wmax)])
        size = 1
        for (d, s) in dims_shape:
            w = next((w for w in widths if d in [dd for _, dd in next(a for a in axes if a["name"] == w[0])["pos"]]), None)
            size *= s + (w[1] + w[2] if w else 0)
        if size > 150 or size == 0:
            continue
        case = {"id": cid, "ev": "Pad", "grid": {"axes": axes, "extra": extra, "ctor": ctor},
                "args": {"data": gen.rand_data(rng, dims_shape), "widths": widths,
                         "boundary": rand_spelling(rng, axnames, gen.RULES),
                         "fill_value": rand_spelling(rng, axnames, [-3, 0, 2, 7])}}
        if rng.random() < 0.2:
            case["args"]["npnum"] = rng.choice(["f64", "f32", "i64", "float"])
        if rng.random() < 0.2:
            # missing values among the original values: padding copies values, NaN included ("leaves every original
            # value in place"); in the records a NaN is the distinguished integer NAN_INT
            fl = case["args"]["data"]["flat"]
            for k_ in rng.sample(range(len(fl)), max(1, len(fl) // 4)):
                fl[k_] = model.NAN_INT
        if rng.random() < 0.12:
            # an array that is longer or shorter along a padded dimension than the grid's dataset (a sub-range, or the
            # result of an earlier padding): it carries no dimension coordinates
            d0 = case["args"]["data"]
            axd_ = {d: a for a in axes for _, d in a["pos"]}
            cand = [i for i, d in enumerate(d0["dims"]) if d in axd_ and any(w[0] == axd_[d]["name"] for w in widths)]
            if cand:
                i = rng.choice(cand)
                newlen = max(1, d0["shape"][i] + rng.choice([-1, 1, 2]))
                d0["shape"][i] = newlen
                size = 1
                for s_ in d0["shape"]:
                    size *= s_
                d0["flat"] = [rng.randint(-9, 9) for _ in range(size)]
                for w in widths:
                    if w[0] == axd_[d0["dims"][i]]["name"]:
                        w[1], w[2] = min(w[1], newlen), min(w[2], newlen)
                case["args"]["offlen"] = True
        if rng.random() < 0.25:
            # an earlier padding call on the same Grid with other per-call choices: the rule in force for THIS call is
            # resolved from this call's arguments and the Grid's settings, not from what an earlier call was given
            case["before"] = [{"boundary": rand_spelling(rng, axnames, gen.RULES), "fill_value": rand_spelling(rng, axnames, [-3, 0, 2, 7])}
                              for _ in range(rng.randint(1, 2))]
        return case


def execute(case):
    nm = model.Names(case["grid"].get("names"))
    rec = dict(case)
    try:
        grid, ds = model.make_grid(case["grid"])
    except Exception as ex:
        rec["out"] = model.encode_error(ex)
        return rec
    if case["ev"] == "Construct":
        inv = nm.inv()
        rec["out"] = {"k": "settings", "v": [[inv.get(n, n), ax.boundary, model.enc_int(ax.fill_value)] for n, ax in grid.axes.items()]}
        return rec
    try:
        from xgcm.padding import pad

        da = model.make_array(case["args"]["data"], nm, None if case["args"].get("offlen") else ds, name="v1")
        kw = model.call_kwargs(case["args"], nm)
        bw = {nm(a): (lo, hi) for a, lo, hi in case["args"]["widths"]}
        for b in case.get("before", []):
            try:
                pad(da, grid, boundary_width=bw, **model.call_kwargs(b, nm))
            except Exception:
                pass
        res = pad(da, grid, boundary_width=bw, **kw)
        rec["out"] = model.encode_result(res, 1, nm)
    except Exception as ex:
        rec["out"] = model.encode_error(ex)
    return rec


def klass(r):
    c = r["grid"]["ctor"]
    base = (r["ev"], c["periodic"]["k"], c["boundary"]["k"], c["fill_value"]["k"])
    if r["ev"] == "Pad":
        base += (r["args"]["boundary"]["k"], r["args"]["fill_value"]["k"], len(r["args"]["widths"]), len(r["args"]["data"]["dims"]))
    else:
        base += (str(c["periodic"]["v"]), str(c["boundary"].get("v")), str(c["fill_value"].get("v")))
    return base


KNOWN_PERIODIC_LIST = "ctor-periodic-list-unlisted-axis-stays-periodic"


def _given(arg, ax):
    return arg["k"] == "s" or (arg["k"] == "m" and any(a == ax for a, _ in arg["v"]))


def _value(arg, ax):
    return arg["v"] if arg["k"] == "s" else next(v for a, v in arg["v"] if a == ax)


def _grid_rule(c, ax, legacy_list=False):
    if _given(c["boundary"], ax):
        return _value(c["boundary"], ax)
    p = c["periodic"]
    if p["k"] == "b":
        per = p["v"]
    elif p["k"] == "l":
        per = True if legacy_list else ax in p["v"]
    else:
        per = dict((a, v) for a, v in p["v"]).get(ax, True)
    return "periodic" if per else "fill"


def _legacy_pad(rec):
    """what pad returns if an axis omitted from a `periodic` list is treated as periodic (the known deviation)"""
    import numpy as np

    c, args = rec["grid"]["ctor"], rec["args"]
    a = np.array(args["data"]["flat"], dtype=float).reshape(args["data"]["shape"])
    dims = args["data"]["dims"]
    for axn, lo, hi in args["widths"]:
        ax = next(x for x in rec["grid"]["axes"] if x["name"] == axn)
        d = next(k for k, dd in enumerate(dims) if dd in [q for _, q in ax["pos"]])
        rule = _value(args["boundary"], axn) if _given(args["boundary"], axn) else _grid_rule(c, axn, legacy_list=True)
        fill = _value(args["fill_value"], axn) if _given(args["fill_value"], axn) else (
            _value(c["fill_value"], axn) if _given(c["fill_value"], axn) else 0)
        pw = [(0, 0)] * a.ndim
        pw[d] = (lo, hi)
        mode = {"periodic": "wrap", "fill": "constant", "extend": "edge"}[rule]
        a = np.pad(a, pw, mode=mode, **({"constant_values": fill} if mode == "constant" else {}))
    return [int(v) for v in a.ravel()]


def classify(rec, clauses):
    """key = event + failing clause; the one known deviation is recognised by its exact signature: `periodic`
    is a list, the axis it omits has no boundary setting of its own, and the observed outcome is precisely
    what treating that axis as periodic gives"""
    c = rec["grid"]["ctor"]
    axes = [a["name"] for a in rec["grid"]["axes"]]
    if c["periodic"]["k"] == "l" and set(c["periodic"]["v"]) != set(axes):
        if rec["ev"] == "Construct" and clauses == ["grid-rule"] and rec["out"]["k"] == "settings":
            if all(rule == _grid_rule(c, a, legacy_list=True) for a, rule, _ in rec["out"]["v"]):
                return KNOWN_PERIODIC_LIST
        if rec["ev"] == "Pad" and clauses == ["values"] and rec["out"]["k"] == "array":
            try:
                if rec["out"]["flat"] == _legacy_pad(rec):
                    return KNOWN_PERIODIC_LIST
            except Exception:
                pass
    return f"{rec['ev'].lower()}-" + "+".join(sorted(set(clauses)))


def run(ctx):
    thorough = ctx.tier == "thorough"
    ctx.mc("MC_Boundary", "MC_Boundary.cfg", coverage=True)
    rng = random.Random(ctx.seed * 15485863 + 2)
    cases = construct_cases(1, rng, sample=None if thorough else 1500)
    n0 = len(cases)
    npad = 50000 if thorough else 2500
    cases += [gen_pad(rng, n0 + 1 + k, nmax=5 if thorough else 4) for k in range(npad)]
    recs = ctx.pmap(execute, cases)
    bad = ctx.validate("C02Trace", recs, jvms=16 if thorough else 8)
    for r in recs:
        ctx.nontrivial.add(klass(r))
        if r["id"] in bad:
            ctx.reject(classify(r, bad[r["id"]]), f"spec rejects record: {bad[r['id']]}", r)
    ctx.evaluations = len(recs)
    if thorough:
        ctx.extra["exhaustive_constructor_spellings"] = n0

    def corrupt(r):
        if r["out"]["k"] == "settings":
            r["out"]["v"][0][1] = "extend" if r["out"]["v"][0][1] != "extend" else "fill"
            return True
        if r["out"]["k"] == "array" and r["args"]["widths"][0][1] + r["args"]["widths"][0][2] > 0:
            r["out"]["flat"][0] += 1
            return True
        return False

    ctx.selftest_corrupt("C02Trace", recs, bad, corrupt=corrupt)
    for ev in ("Construct", "Pad"):
        r = next(x for x in recs if x["ev"] == ev)
        ctx.sample({"ev": ev, "ctor": r["grid"]["ctor"], "args": r.get("args"), "out": r["out"]})
    ctx.assumptions += ["small integer data", "a `periodic` mapping that omits an axis is outside the property statement (unconstrained)"]


def replay(ctx, rp):
    from ..core import setup_import_path

    setup_import_path()
    recs = [execute({k: v for k, v in c.items() if k != "out"}) for c in rp["cases"]]
    bad = ctx.validate("C02Trace", recs)
    for r in recs:
        if r["id"] in bad:
            ctx.reject(classify(r, bad[r["id"]]), f"spec rejects record: {bad[r['id']]}", r)
