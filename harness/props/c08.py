"""C08: linear and log transforms are exact piecewise-linear interpolation per column."""
import itertools
import random

from .. import model

LEVEL = "model_checking"
RULE = ("records = one column each: strictly monotonic integer target_data profile (either direction, varying across the "
        "columns of a call), integer data, target levels on half-integers inside, outside and exactly on the end values "
        "in any order, mask_edges on/off, bypass_checks on increasing profiles, method linear or log (powers of two, so "
        "the log-space weight is the same rational), through the kernel and through Grid.transform with bare-array, 1-D "
        "and N-D targets, custom suffix, extra dims in both orders, dask chunking; non-trivial = distinct "
        "(theta, levels, options, route)"
        ' Also: target values under affine maps, target_data left at its default (the axis coordinate, input with or without it), integer / float32 target_data, 1-D targets with foreign index labels, data with one more dimension than target_data, an earlier transform on the same Grid, the level 0 under method log, the columns laid out over two extra dimensions listed in different orders on the data and on target_data.')


def mono(rng, n, T):
    s = sorted(rng.sample(range(T + 1), n))
    return s[::-1] if rng.random() < 0.5 else s


def execute(job):
    import numpy as np
    import xarray as xr

    rng = random.Random(job["seed"])
    ncol = len(job["thetas"])
    n = len(job["thetas"][0])
    log = job["method"] == "log"
    th2 = np.array(job["thetas"], dtype="float64")      # abstract theta (exponents for log)
    lev2 = [np.array(l, dtype="float64") / 2.0 for l in job["levels"]]  # abstract levels (half-integers)
    base, eps = job.get("affine", (0.0, 1.0))
    # the interpolant is invariant under theta -> base + eps * theta applied to target_data and levels alike (exact in
    # binary for the values used): large values that differ only far behind the point are the same columns
    real_th = np.power(2.0, th2) if log else base + eps * th2
    real_lev = [np.power(2.0, l) if log else base + eps * l for l in lev2]
    phis = np.array([[float("nan") if v == model.NAN_INT else float(v) for v in col] for col in job["phis"]], dtype="float64")
    recs = []
    exp_name, exp_dim = "-", "-"
    try:
        if job["via"] == "kernel":
            from xgcm.transform import interp_1d_linear

            out = interp_1d_linear(phis, real_th, real_lev[0], mask_edges=job["mask"], bypass_checks=job["bypass"], logarithmic=log)
            outs = [out[c] for c in range(ncol)]
            newdim, name = "-", "-"
        else:
            import xgcm

            N = (lambda x: job.get("names", {}).get(x, x))
            INV = {v: k for k, v in job.get("names", {}).items()}

            zc = real_th[0] if job.get("td_default") else np.arange(n) + 0.5      # the axis coordinate is the default target_data
            ds = xr.Dataset(coords={N("zc"): (N("zc"), zc), N("zl"): (N("zl"), np.arange(n) * 1.0), N("col"): (N("col"), np.arange(ncol))})
            grid = xgcm.Grid(ds, coords={N("Z"): {"center": N("zc"), "left": N("zl")}}, periodic=False, autoparse_metadata=False)
            first = job["extra_first"]
            dims = (N("col"), N("zc")) if first else (N("zc"), N("col"))
            da = xr.DataArray(phis if first else phis.T, dims=dims, name=N("phi"))
            nrow = 2 if job.get("da_extra") else 1
            if nrow == 2:
                # the data has one more dimension than target_data: every row is transformed against the same
                # target_data; the second row holds 2 * phi + 1
                da = xr.concat([da, 2 * da + 1], dim=N("row")).rename(N("phi"))
                if job.get("row_last"):
                    da = da.transpose(..., N("row"))
            td = xr.DataArray(real_th if first else real_th.T, dims=dims, name=N("theta"))
            # the columns laid out over TWO extra dimensions, listed in one order on the data and in another on target_data
            shape2 = {2: (2, 1), 3: (1, 3), 4: (2, 2)}.get(ncol) if job.get("split") and nrow == 1 and job["target"] != "nd" and not job.get("td_default") else None
            if shape2:
                da = xr.DataArray(phis.reshape(shape2 + (n,)), dims=(N("ca"), N("cb"), N("zc")), name=N("phi")).transpose(*rng.sample([N("ca"), N("cb"), N("zc")], 3))
                td = xr.DataArray(real_th.reshape(shape2 + (n,)), dims=(N("ca"), N("cb"), N("zc")), name=N("theta")).transpose(*rng.sample([N("ca"), N("cb"), N("zc")], 3))
            if job.get("tdtype"):
                td = td.astype(job["tdtype"])          # integer-valued profiles: exact in every dtype used
            if job["chunk"]:
                da, td = (da.chunk({N("ca"): 1}), td.chunk({N("cb"): 1})) if shape2 else (da.chunk({N("col"): 1}), td.chunk({N("col"): 1}))
            kw = {"method": job["method"], "mask_edges": job["mask"], "bypass_checks": job["bypass"]}
            exp_name = "phi" + (job["suffix"] if job["suffix"] is not None else "_transformed")
            if job["suffix"] is not None:
                kw["suffix"] = job["suffix"]
            tk = job["target"]
            if tk == "array":
                target, exp_dim = real_lev[0], "theta"
            elif tk == "da1d":
                # the target's own index labels are its values, other numbers (layer numbers), or absent
                lab = job.get("labels", "values")
                cds = {N("lev"): real_lev[0]} if lab == "values" else ({N("lev"): np.arange(len(real_lev[0])) + 1} if lab == "numbers" else {})
                target, exp_dim = xr.DataArray(real_lev[0], dims=[N("lev")], coords=cds), "lev"
            else:
                target = xr.DataArray(np.array(real_lev), dims=[N("col"), N("lev")])
                kw["target_dim"] = N("lev")
                exp_dim = "lev"
            if job["seed"] % 4 == 0:
                # an earlier transform on the same Grid with other options
                try:
                    grid.transform(da, N("Z"), real_lev[0], target_data=td, method="linear", mask_edges=not job["mask"], suffix="_earlier")
                except Exception:
                    pass
            if job.get("td_default"):
                # the array carries the axis coordinate or only the dimension: the default is the GRID's coordinate
                da_ = da.assign_coords({N("zc"): ds[N("zc")]}) if job.get("da_coords", True) else da
                res = grid.transform(da_, N("Z"), target, **kw)
            else:
                res = grid.transform(da, N("Z"), target, target_data=td, **kw)
            if shape2:
                nd_ = [d for d in res.dims if d not in (N("ca"), N("cb"))]
                res = res.transpose(N("ca"), N("cb"), *nd_).stack({N("col"): (N("ca"), N("cb"))}).reset_index(N("col"), drop=True)
            nd = [d for d in res.dims if d != N("col")]
            newdim = INV.get(nd[0], nd[0]) if len(nd) == 1 else str(nd)
            name = "none" if res.name is None else str(res.name)
            # the result is named after the input plus the suffix: map the input's part back
            if name.startswith(N("phi")):
                name = "phi" + name[len(N("phi")):]
            if nrow == 2:
                nd = [d for d in nd if d != N("row")]
                newdim = INV.get(nd[0], nd[0]) if len(nd) == 1 else str(nd)
                res = res.transpose(N("row"), N("col"), *nd)
                vals = np.asarray(res.values)
                outs = [vals[0][c] for c in range(ncol)] + [vals[1][c] for c in range(ncol)]
            else:
                res = res.transpose(N("col"), *nd)
                vals = np.asarray(res.values)
                outs = [vals[c] for c in range(ncol)]
        for k_, cid in enumerate(job["ids"]):
            c = k_ % ncol
            phi_rec = job["phis"][c] if k_ < ncol else [v if v == model.NAN_INT else 2 * v + 1 for v in job["phis"][c]]
            lv = job["levels"][c if job.get("target") == "nd" else 0]
            recs.append({"id": cid, "ev": "Linear", "via": job["via"], "method": job["method"],
                         "theta": [2 * t for t in job["thetas"][c]], "phi": phi_rec, "levels": lv,
                         "mask": bool(job["mask"]), "bypass": bool(job["bypass"]), "target": job.get("target", "-"),
                         "chunk": bool(job.get("chunk")), "expect_newdim": exp_dim, "expect_name": exp_name, "td_default": bool(job.get("td_default")),
                         "out": {"k": "values", "v": [[0, 0] if v == "nan" else v for v in (model.enc_rat(float(x)) for x in outs[k_])],
                                 "newdim": newdim, "name": name}})
    except Exception as ex:
        for k_, cid in enumerate(job["ids"]):
            c = k_ % ncol
            recs.append({"id": cid, "ev": "Linear", "via": job["via"], "method": job["method"],
                         "theta": [2 * t for t in job["thetas"][c]], "phi": job["phis"][c], "levels": job["levels"][0],
                         "mask": bool(job["mask"]), "bypass": bool(job["bypass"]), "target": job.get("target", "-"),
                         "chunk": bool(job.get("chunk")), "expect_newdim": exp_dim, "expect_name": exp_name,
                         "out": model.encode_error(ex)})
    return recs


def gen_jobs(rng, thorough):
    jobs, cid = [], 0
    # exhaustive small space through the kernel: columns of length 2..3, theta strictly monotone in 0..4, every level
    T = 4
    levels_all = list(range(-2, 2 * T + 3))       # half-integers -1..T+1, doubled
    for n in (2, 3):
        profiles = [list(p) for p in itertools.permutations(range(T + 1), n) if list(p) == sorted(p) or list(p) == sorted(p, reverse=True)]
        for mask in (False, True):
            grp = profiles
            ids = list(range(cid + 1, cid + 1 + len(grp)))
            cid += len(grp)
            lv = list(levels_all)
            rng.shuffle(lv)
            jobs.append({"via": "kernel", "method": "linear", "thetas": grp, "phis": [[rng.randint(-6, 6) for _ in range(n)] for _ in grp],
                         "levels": [lv], "mask": mask, "bypass": False, "ids": ids, "seed": cid})
            # the same columns with missing data values here and there (the levels include every point of the profile)
            ids = list(range(cid + 1, cid + 1 + len(grp)))
            cid += len(grp)
            jobs.append({"via": "kernel", "method": "linear", "thetas": grp,
                         "phis": [[model.NAN_INT if rng.random() < 0.3 else rng.randint(-6, 6) for _ in range(n)] for _ in grp],
                         "levels": [lv], "mask": mask, "bypass": False, "ids": ids, "seed": cid})
    for _ in range(3000 if thorough else 700):
        n = rng.randint(2, 5)
        method = rng.choice(["linear", "linear", "log"])
        T2 = rng.randint(n, 8)
        ncol = rng.randint(1, 4)
        via = rng.choice(["kernel", "grid", "grid"])
        bypass = rng.random() < 0.25
        thetas = []
        for _ in range(ncol):
            t = mono(rng, n, T2)
            if bypass:
                t = sorted(t)
            thetas.append(t)
        target = rng.choice(["array", "da1d", "nd"]) if via == "grid" else "-"
        nlev = rng.randint(1, 6)

        def levels():
            pool = list(range(-2, 2 * T2 + 3))
            lv = [rng.choice(pool) for _ in range(nlev)]
            lv += [2 * thetas[0][0], 2 * thetas[0][-1]][: rng.randint(0, 2)]  # exactly on the end values
            if method == "log" and rng.random() < 0.3:
                lv.append(-4000)      # 2 ** -2000 is 0.0 in binary64: the level 0, below every positive target_data
            rng.shuffle(lv)
            return lv

        td_default = via == "grid" and target in ("da1d", "nd") and rng.random() < 0.2
        if td_default:
            thetas = [thetas[0] for _ in thetas]         # target_data left out: the axis coordinate, the same for every column
        first = levels()
        lv = [first] + [[rng.choice(range(-2, 2 * T2 + 3)) for _ in first] for _ in range(ncol - 1)] if target == "nd" else [first]
        da_extra = via == "grid" and target != "nd" and rng.random() < 0.25
        nids = ncol * (2 if da_extra else 1)
        ids = list(range(cid + 1, cid + 1 + nids))
        cid += nids
        affine = (0.0, 1.0)
        if method == "linear" and rng.random() < 0.3:
            affine = rng.choice([(1024.0, 2.0 ** -10), (1024.0, 2.0 ** -14), (-8.0, 0.5), (0.0, 2.0 ** -20)])
        tdtype = None
        if via == "grid" and method == "linear" and affine == (0.0, 1.0) and not td_default and rng.random() < 0.25:
            tdtype = rng.choice(["int64", "int32", "float32"])
        jobs.append({"via": via, "method": method, "thetas": thetas, "phis": [[rng.randint(-6, 6) for _ in range(n)] for _ in range(ncol)],
                     "affine": list(affine), "tdtype": tdtype, "labels": rng.choice(["values", "numbers", "none"]),
                     "da_coords": rng.random() < 0.5, "da_extra": da_extra, "row_last": rng.random() < 0.5, "levels": lv, "mask": rng.random() < 0.5, "bypass": bypass, "ids": ids, "seed": cid, "target": target,
                     "suffix": rng.choice([None, None, "_x", ""]), "chunk": rng.random() < 0.4, "extra_first": rng.random() < 0.5, "td_default": td_default,
                     "split": rng.random() < 0.3})
    return jobs


def classify(rec, clauses):
    return "linear-" + "+".join(sorted(set(clauses))) + f"-{rec['via']}"


def run(ctx):
    thorough = ctx.tier == "thorough"
    ctx.mc("MC_Linear", "MC_Linear.cfg")
    rng = random.Random(ctx.seed * 179424673 + 8)
    jobs = gen_jobs(rng, thorough)
    recs = [r for rs in ctx.pmap(execute, jobs, chunksize=8) for r in rs]
    bad = ctx.validate("C08Trace", recs, jvms=16 if thorough else 8, chunk=2500)
    for r in recs:
        ctx.nontrivial.add((tuple(r["theta"]), tuple(r["levels"]), r["mask"], r["bypass"], r["method"], r["via"], r["target"], r["chunk"]))
        if r["id"] in bad:
            ctx.reject(classify(r, bad[r["id"]]), f"spec rejects record: {bad[r['id']]}", r)
    ctx.evaluations = len(recs)

    def corrupt(r):
        if r["out"]["k"] != "values":
            return False
        for v in r["out"]["v"]:
            if v[1] != 0:
                v[0] += v[1]
                return True
        return False

    ctx.selftest_corrupt("C08Trace", recs, bad, corrupt=corrupt, kind=lambda r: (r["via"], r["method"]))
    for r in recs[:1] + recs[-1:]:
        ctx.sample({k: r[k] for k in ("via", "method", "theta", "phi", "levels", "mask", "target", "out")})
    ctx.assumptions += ["numba is not installed: kernels run through the pure-Python guvectorize stand-in of harness/numba_shim",
                        "theta on integers (doubled in the records), levels on half-integers; log uses powers of two and the decoded "
                        "rational must be within 1e-12 of the float result",
                        "bypass_checks=True is exercised on increasing profiles only (caller's contract)"]


def replay(ctx, rp):
    from ..core import setup_import_path

    setup_import_path()
    recs = []
    for c in rp["cases"]:
        job = {"via": "kernel", "method": c["method"], "thetas": [[t // 2 for t in c["theta"]]], "phis": [c["phi"]],
               "levels": [c["levels"]], "mask": c["mask"], "bypass": c["bypass"], "ids": [c["id"]], "seed": 1}
        recs += execute(job)
    bad = ctx.validate("C08Trace", recs)
    for r in recs:
        if r["id"] in bad:
            ctx.reject(classify(r, bad[r["id"]]), f"spec rejects record: {bad[r['id']]}", r)
