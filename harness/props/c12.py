"""C12: results do not depend on the hash seed or on table ordering.
The same calls are executed in fresh interpreters under K string-hash seeds, with the face-link table and the metrics
mapping inserted in a different order per variant; one stateful TLC run requires identical observations per call."""
import json
import os
import random

from ..model import M, NONE, S
from .. import gen
import subprocess
import sys

LEVEL = "model_checking"
RULE = ("calls = padded face-connected arrays with 2-D widths (corners included; every rule, scalar and vector), "
        "get_metric on registries offering several partitions of three requested axes, Grid(ds) from COMODO/SGRID metadata "
        "with 2-3 axes (axis order), equivalence of renamed multi-name signatures, multi-axis stencil calls; each executed "
        "in K fresh interpreters (PYTHONHASHSEED 0..K-1) with permuted insertion orders of the link table / metrics "
        "mapping; every corner-inclusive pad is also explained by the per-face assembly for SOME axis order (C05Trace); "
        "non-trivial = distinct calls x variants")


def worker_main(argv):
    """python -m harness.props.c12 <cases.json> <out.json> <variant>  (run with PYTHONHASHSEED set)"""
    from harness.core import setup_import_path

    setup_import_path()
    from harness.props import c01, c05, c10, c11, c14, c15, c17

    cases = json.load(open(argv[0]))
    variant = int(argv[2])
    probe = [list({"a1", "a2"}), list({"a1", "a2", "a3"}), list({"X", "Y", "Z"})]
    out = []
    for c in cases:
        fam = c["family"]
        case = c["case"]
        rng = random.Random(1000 * variant + c["call"])
        if fam == "c05":
            tab = case["grid"]["faces"]["table"]
            order = list(range(len(tab)))
            if variant:
                rng.shuffle(order)
            case["grid"]["faces"]["order"] = order
            rec = c05.execute(case)
            obs = {k: rec["out"].get(k) for k in ("k", "dims", "shape", "flat", "cls")}
            full = rec if variant == 0 else None
        elif fam == "c10":
            # the order of the variables registered for one key is part of the arguments (it is the order of
            # registration); only the insertion order of the KEYS of the metrics mapping is permuted
            # (a key is the SET of axes: ("a1","a2") and ("a2","a1") name the same registry entry)
            keys = []
            for e in case["reg"]:
                if tuple(sorted(e["key"])) not in keys:
                    keys.append(tuple(sorted(e["key"])))
            if variant:
                rng.shuffle(keys)
            case["reg"] = [e for k in keys for e in case["reg"] if tuple(sorted(e["key"])) == k]
            rec = c10.execute(case)
            obs = {k: rec["out"].get(k) for k in ("k", "dims", "shape", "flat", "cls", "raw_dims")}
            full = None
        elif fam == "c17":
            # the same links listed in another order: the accept / refuse outcome may not change
            order = list(range(len(case["table"])))
            if variant:
                rng.shuffle(order)
            case["order"] = order
            rec = c17.execute(case)
            obs = {"k": rec["out"]["k"]}
            full = None
        elif fam == "c14":
            rec = [r for r in c14.execute(case) if r["ev"] == "Autoparse"][0]
            obs = {"k": rec["out"]["k"], "coords": rec["out"].get("coords"), "axis_order": rec["out"].get("axis_order")}
            full = None
        elif fam == "c15":
            rec = c15.execute(case)
            obs = rec["out"]
            full = None
        elif fam == "c11":
            # a user function over several dummy axes: which real axis each dummy name stands for, what the function
            # receives and where its outputs land
            rec = c11.execute(case)
            obs = {k: rec["out"].get(k) for k in ("k", "received", "results", "cls")}
            full = None
        else:
            rec = c01.execute(case)
            obs = {k: rec["out"].get(k) for k in ("k", "dims", "shape", "flat", "cls")}
            full = None
        obs = {k: v for k, v in obs.items() if v is not None and k != "msg"}
        out.append({"call": c["call"], "family": fam, "obs": obs, "full": full})
    json.dump({"records": out, "probe": probe, "hashseed": os.environ.get("PYTHONHASHSEED")}, open(argv[1], "w"))


def gen_calls(rng, thorough):
    from . import c01, c05, c10, c11, c14, c15, c17
    from .. import model

    calls = []
    n = 1

    def add(fam, case):
        nonlocal n
        calls.append({"call": n, "family": fam, "case": case})
        n += 1

    for k5 in range(400 if thorough else 70):
        c = c05.gen_case(rng, n, ev="FaceCorner", force_both=True, maxelems=200)
        if k5 % 3 == 0:
            # the one pair of rules whose basic padding does not commute: 'fill' on both axes with different values
            # (the corner cells on open edges then tell which axis was padded last)
            c["args"]["boundary"] = S("fill")
            f_ = c["args"].get("fill_den", 1)      # records in half units hold twice the (integer) real fill values
            c["args"]["fill_value"] = M([["a1", 2 * f_], ["a2", 7 * f_]] + ([["a3", -3 * f_]] if any(a["name"] == "a3" for a in c["grid"]["axes"]) else []))
        add("c05", c)
    k = 0
    while k < (300 if thorough else 50):
        c = c10.gen_getmetric(rng, n)
        c.pop("replaced", None)          # (refers to a place in the list of registrations, which the variants reorder)
        if len(c["axes"]) == 3 and len(c["reg"]) >= 3:
            add("c10", c)
            k += 1
    # three axes served only by the three single-axis metrics (a product of three blocks: its order of multiplication,
    # and with it the order of the result's dimensions, may not follow a set's iteration order)
    for _ in range(60 if thorough else 15):
        grid = c10.rand_grid(rng, naxes=3, nmax=3)
        axn = [a["name"] for a in grid["axes"]]
        axd = {a["name"]: a for a in grid["axes"]}
        posn = {a: rng.choice([p for p, _ in axd[a]["pos"]]) for a in axn}
        adims = [dict(axd[a]["pos"])[posn[a]] for a in axn]
        ashape = [c10.plen(posn[a], axd[a]["n"]) for a in axn]
        o = list(range(3))
        rng.shuffle(o)
        reg = [c10.metric_entry(rng, grid, [a], [posn[a]], f"m{k + 1}") for k, a in enumerate(axn)]
        rng.shuffle(reg)
        req = list(axn)
        rng.shuffle(req)
        add("c10", {"id": n, "ev": "GetMetric", "grid": grid, "reg": reg, "adims": [adims[i] for i in o], "ashape": [ashape[i] for i in o], "axes": req})
    # operators weighted by a metric over three axes for which only competing partitions are registered
    k = 0
    while k < (200 if thorough else 40):
        grid = c10.rand_grid(rng, naxes=3, nmax=2)
        axn = [a["name"] for a in grid["axes"]]
        axd = {a["name"]: a for a in grid["axes"]}
        dims_shape = [[dict(axd[a]["pos"])["center"], axd[a]["n"]] for a in axn]
        rng.shuffle(dims_shape)
        reg = c10.subset_registry(rng, grid, [d for d, _ in dims_shape])
        pairs = [e for e in reg if len(e["key"]) == 2]
        if len(pairs) < 2:
            continue
        a = rng.choice(axn)
        to = next(p for p, _ in axd[a]["pos"] if p != "center")
        w = list(axn)
        rng.shuffle(w)
        c = {"id": n, "ev": "Weighted", "op": rng.choice(["diff", "interp"]), "grid": grid, "reg": reg,
             "args": {"data": gen.rand_data(rng, dims_shape, 1, 6), "axis": [a], "to": S(to), "boundary": S("extend"), "fill_value": NONE,
                      "weight": w, "weight_spelling": rng.choice(["list", "list", "dict"])}}
        add("c10", c)
        k += 1
    # face tables, consistent or not (single edits of consistent ones), whatever the order their links are listed in
    pool17 = []
    for nf_, axes_, entries_ in c17.base_tables(rng):
        pool17 += [(nf_, axes_, entries_)] + [(nf_, axes_, t) for t in c17.edits(entries_, nf_, axes_)]
    for nf_, axes_, t in rng.sample(pool17, min(len(pool17), 600 if thorough else 120)):
        if len(t) >= 2:
            add("c17", {"id": n, "ev": "Construct", "nfaces": nf_, "axes": axes_, "table": t, "nfacedims": 1, "facedim_in_ds": True, "facecoord": True})
    for _ in range(300 if thorough else 50):
        c = c14.gen_case(rng, n)
        c["user_coords"] = False
        add("c14", c)
    for _ in range(400 if thorough else 80):
        ins, outs = c15.rand_struct(rng, names=["X", "Y", "Z"])
        used = sorted({x for a in ins + outs for x, _ in a})
        m = dict(zip(used, rng.sample(["A", "B", "C", "lon", "lat", "k"], len(used))))
        ins2 = [[(m[x], p) for x, p in a] for a in ins]
        outs2 = [[(m[x], p) for x, p in a] for a in outs]
        add("c15", {"id": n, "ev": "Equiv", "a": list(c15.struct_text(ins, outs)), "b": list(c15.struct_text(ins2, outs2)), "kind": "rename"})
    for _ in range(200 if thorough else 40):
        c = c01.gen_case(rng, n)
        if len(c["args"]["axis"]) >= 2:
            add("c01", c)
    def brings_two(c):
        # some argument after the first introduces two dummy axes no earlier argument carries
        seen = set()
        for k, a in enumerate(c["sig"]["ins"]):
            new = {d for d, _ in a} - seen
            if k > 0 and len(new) >= 2:
                return True
            seen |= new
        return False

    k11, want = 0, (300 if thorough else 60)
    tries = 0
    while k11 < want and tries < 200000:
        tries += 1
        c = c11.gen_case(rng, n)
        if c["edit"] != "none" or len({d for a in c["sig"]["ins"] for d, _ in a}) < 2:
            continue
        if k11 < want // 2 and not brings_two(c):
            continue
        add("c11", c)
        k11 += 1
    return calls


def classify(rec, clauses):
    return f"seed-or-order-{rec['family']}-" + "+".join(sorted(set(clauses)))


def run(ctx):
    from ..core import driver_env, ROOT, PY

    thorough = ctx.tier == "thorough"
    K = 16 if thorough else 4
    ctx.mc("MC_FaceTopology", "MC_FaceTopology_quick.cfg")
    ctx.mc("MC_FaceAssemble", "MC_FaceAssemble_2x1.cfg" if thorough else "MC_FaceAssemble_1x2.cfg")
    # which basic paddings of two axes commute (only 'fill' with two different values does not: the corner then holds
    # the value of the axis padded last) - the reason the order of the pad axes is observable at all
    ctx.mc("MC_PadCommute", "MC_PadCommute.cfg", workers=8)
    ctx.mc("MC_PadCommute", "MC_PadCommute_refute.cfg", workers=2, expect_violation="Commutes")
    rng = random.Random(ctx.seed * 334214459 + 12)
    from ..core import setup_import_path

    setup_import_path()
    calls = gen_calls(rng, thorough)
    cfile = os.path.join(ctx.scratch, "c12_calls.json")
    json.dump(calls, open(cfile, "w"))
    # choose the hash seeds so that the interpreters really iterate small name sets in different orders (a handful of
    # arbitrary seeds iterates a 2-element set in one and the same order with probability 2^-(K-1))
    base = (ctx.seed % 7) * 100
    cand = {}
    probes = [subprocess.Popen([PY, "-c", "print(list({'a1','a2'}), list({'a1','a2','a3'}), list({'X','Y','Z'}), list({'m1','m2','m3'}))"],
                               env=dict(os.environ, PYTHONHASHSEED=str(base + j)), stdout=subprocess.PIPE, text=True) for j in range(4 * K)]
    for j, p_ in enumerate(probes):
        cand[base + j] = p_.communicate()[0].strip()
    hashseeds, seen_orders = [], set()
    parts_of = {hs: set(enumerate(sig_.split("] ["))) for hs, sig_ in cand.items()}
    while len(hashseeds) < K:                           # greedily: the seed that adds most iteration orders not seen yet
        best = max((hs for hs in cand if hs not in hashseeds), key=lambda hs: (len(parts_of[hs] - seen_orders), -hs))
        hashseeds.append(best)
        seen_orders |= parts_of[best]
    ctx.extra["hash_seeds"] = hashseeds
    procs = []
    for v in range(K):
        ofile = os.path.join(ctx.scratch, f"c12_out_{v}.json")
        env = driver_env({"PYTHONHASHSEED": str(hashseeds[v])})
        procs.append((v, ofile, subprocess.Popen([PY, "-m", "harness.props.c12", cfile, ofile, str(v)], cwd=ROOT, env=env,
                                                 stdout=subprocess.PIPE, stderr=subprocess.STDOUT, text=True)))
    results = {}
    orders = [set(), set(), set()]
    for v, ofile, p in procs:
        outp, _ = p.communicate(timeout=3000)
        if p.returncode != 0:
            from ..core import Machinery

            raise Machinery(f"C12 worker for variant {v} failed:\n{outp[-2000:]}")
        d = json.load(open(ofile))
        results[v] = d["records"]
        for k, pr in enumerate(d["probe"]):
            orders[k].add(tuple(pr))
    recs, cid = [], 0
    corner = []
    for idx, c in enumerate(calls):
        for v in range(K):
            r = results[v][idx]
            cid += 1
            recs.append({"id": cid, "call": c["call"], "family": c["family"], "variant": v, "obs": r["obs"]})
            if r["full"] is not None:
                corner.append(r["full"])
    bad = ctx.validate("C12Trace", recs, jvms=8, chunk=K * 60)
    for r in recs:
        ctx.nontrivial.add((r["call"], r["variant"]))
        if r["id"] in bad:
            full = dict(r, case=calls[r["call"] - 1]["case"])
            ctx.reject(classify(r, bad[r["id"]]), f"call {r['call']} ({r['family']}) observed differently in variant {r['variant']}", full)
    # corner-inclusive pads must be what the per-face assembly gives for some order of the padded axes
    for k, r in enumerate(corner):
        r["id"] = k + 1
    cbad = ctx.validate("C05Trace", corner, jvms=8, chunk=150)
    for r in corner:
        if r["id"] in cbad:
            ctx.reject("facecorner-" + "+".join(cbad[r["id"]]), f"spec rejects record: {cbad[r['id']]}", r)
    ctx.evaluations = len(recs)
    ctx.extra["interpreters"] = K
    ctx.extra["set_iteration_orders_seen"] = {"2 names": len(orders[0]), "3 names": len(orders[1]), "X,Y,Z": len(orders[2])}
    ctx.extra["calls_by_family"] = {f: sum(1 for c in calls if c["family"] == f) for f in ("c05", "c10", "c11", "c14", "c15", "c17", "c01")}
    if len(orders[0]) < 2:
        ctx.vacuous.append("all interpreters iterated a 2-element name set in the same order")

    def corrupt(r):
        if r["variant"] == 1 and r["obs"].get("flat"):
            v = r["obs"]["flat"][0]
            r["obs"]["flat"][0] = [v[0] + 1, v[1]] if isinstance(v, list) else v + 1
            return True
        if r["variant"] == 1 and r["obs"].get("axis_order"):
            r["obs"]["axis_order"] = list(reversed(r["obs"]["axis_order"])) + ["q"]
            return True
        return False

    # corrupt whole groups: pick a few calls, alter variant 1, expect the altered record to be rejected
    import copy

    picked = []
    seen_f = {}
    for c in calls:
        if seen_f.get(c["family"], 0) >= 2:
            continue
        grp = [copy.deepcopy(r) for r in recs if r["call"] == c["call"]]
        if any(r["id"] in bad for r in grp):
            continue
        if corrupt(grp[1]):
            seen_f[c["family"]] = seen_f.get(c["family"], 0) + 1
            picked += grp
    if picked:
        t0 = ctx.traces
        rej = ctx.validate("C12Trace", picked, jvms=1, chunk=len(picked))
        ctx.traces = t0
        altered = [r for r in picked if r["variant"] == 1]
        missed = [r["id"] for r in altered if r["id"] not in rej]
        ctx.extra.setdefault("corrupt_trace_selftest", []).append({"module": "C12Trace", "altered": len(altered), "rejected": len(altered) - len(missed)})
        if altered and len(missed) == len(altered) and not ctx.rejections:
            from ..core import Machinery

            raise Machinery(f"corrupt-trace self-test: C12Trace accepted altered records {missed}")
    ctx.sample({"call": calls[0]["call"], "family": calls[0]["family"], "variants": K, "obs_variant0": recs[0]["obs"]})
    ctx.assumptions += [f"{K} hash seeds; the iteration orders they produced for 2- and 3-element name sets are counted in the evidence"]


def replay(ctx, rp):
    ctx.extra["note"] = "C12 replays need several interpreters: re-run the check with the seed recorded in the evidence"


if __name__ == "__main__":
    worker_main(sys.argv[1:])
