"""C07: the conservative transform neither creates nor destroys the transformed quantity."""
import itertools
import random

from .. import model

LEVEL = "model_checking"
RULE = ("records = one column each: target_data on the n+1 cell bounds (integers, monotonic or not, repeated values, "
        "values on bin edges), strictly monotonic bins in either direction with integer or half-integer edges, target_data stored as float64 / "
        "float32 / int64 / int32, bypass_checks given or not (documented as without effect here), the real weight matrix recovered with unit "
        "vectors (all columns of a call at once, so column independence is part of every record), a random-data "
        "linearity probe; via the kernel (exhaustive for n <= 2, theta and bins in 0..3) and via Grid.transform with "
        "target_data on bounds or on centres, extra dims, dask chunking of extra dims; non-trivial = distinct "
        "(theta, bins, route)"
        " Also: the columns laid out over two extra dimensions listed in different orders on the data and on target_data.")


def inc_seqs(T):
    out = []
    for k in range(2, T + 2):
        for s in itertools.combinations(range(T + 1), k):
            out.append(list(s))
    return out


def kernel_batch(thetas, bins, rng, tdtype="float64", bin_den=1, affine=(0.0, 1.0)):
    """several columns (same n) in one kernel call per unit vector; returns per-column W and linearity probe"""
    import numpy as np
    from xgcm.transform import interp_1d_conservative

    base, eps = affine
    # overlap fractions are invariant under theta -> base + eps * theta (exact in binary for the values used): columns
    # whose target values are large and differ only far behind the point are the same columns to the property
    th = (base + eps * np.array(thetas, dtype="float64")).astype(tdtype)       # integers: exact in every dtype used
    ncol, n1 = th.shape
    n = n1 - 1
    b = base + eps * np.array(bins, dtype="float64") / bin_den
    W = [[None] * n for _ in range(ncol)]
    for i in range(n):
        phi = np.zeros((ncol, n))
        phi[:, i] = 1.0
        out = interp_1d_conservative(phi, th, b)
        for c in range(ncol):
            W[c][i] = [model.enc_rat(v) for v in out[c]]
    phis = [[rng.randint(-5, 5) for _ in range(n)] for _ in range(ncol)]
    out = interp_1d_conservative(np.array(phis, dtype="float64"), th, b)
    lin = [[model.enc_rat(v) for v in out[c]] for c in range(ncol)]
    out = interp_1d_conservative(np.array(phis, dtype="float64"), th, b[::-1].copy())
    lin_rev = [[model.enc_rat(v) for v in out[c]] for c in range(ncol)]
    return W, phis, lin, lin_rev


def grid_batch(thetas, bins, rng, centres, chunk, extra_first, names=None, tdtype="float64", bin_den=1, bypass=None,
               affine=(0.0, 1.0), td_default=False, more_pos=(), split=False):
    """the same through Grid.transform: columns along an extra dimension"""
    import numpy as np
    import xarray as xr
    import xgcm

    nm = names or (lambda x: x)
    base, eps = affine
    th = (base + eps * np.array(thetas, dtype="float64")).astype(tdtype)
    ncol = th.shape[0]
    n = th.shape[1] - 1 if not centres else th.shape[1]
    # target_data left out: the axis' outer coordinate is the default (td_default; all columns then share it)
    ds = xr.Dataset(coords={nm("zc"): (nm("zc"), np.arange(n) + 0.5), nm("zo"): (nm("zo"), th[0] if td_default else np.arange(n + 1) * 1.0),
                            nm("col"): (nm("col"), np.arange(ncol))})
    # the axis may have further positions besides center and outer (they play no role in the transform)
    zpos = {"center": nm("zc"), "outer": nm("zo")}
    for p_ in more_pos:
        dname = nm({"left": "zl", "right": "zr", "inner": "zi"}[p_])
        ds = ds.assign_coords({dname: (dname, np.arange(n - 1 if p_ == "inner" else n) + (0.0 if p_ == "left" else 1.0))})
        zpos[p_] = dname
    order_ = list(zpos)
    rng.shuffle(order_)
    grid = xgcm.Grid(ds, coords={nm("Z"): {p_: zpos[p_] for p_ in order_}}, periodic=False, autoparse_metadata=False)
    tdim = nm("zc") if centres else nm("zo")
    dims_t = (nm("col"), tdim) if extra_first else (tdim, nm("col"))
    tdata = xr.DataArray(th if extra_first else th.T, dims=dims_t, name=nm("theta"))
    b = base + eps * np.array(bins, dtype="float64") / bin_den
    # bypass_checks is documented to apply to the linear and log methods only: it must change nothing here
    more = {} if bypass is None else {"bypass_checks": bool(bypass)}

    # the columns laid out over TWO extra dimensions, listed in one order on the data and in another on target_data:
    # columns are matched by dimension name, never by where a dimension stands
    shape2 = {2: (2, 1), 3: (1, 3), 4: (2, 2)}.get(ncol) if split and not td_default else None
    if shape2:
        perm_da = rng.sample([nm("ca"), nm("cb"), nm("zc")], 3)
        perm_td = rng.sample([nm("ca"), nm("cb"), tdim], 3)

    def run(phi, bb=None):
        bb = b if bb is None else bb
        if shape2:
            da = xr.DataArray(phi.reshape(shape2 + (n,)), dims=(nm("ca"), nm("cb"), nm("zc")), name=nm("phi")).transpose(*perm_da)
            td = xr.DataArray(th.reshape(shape2 + (th.shape[1],)), dims=(nm("ca"), nm("cb"), tdim), name=nm("theta")).transpose(*perm_td)
            if chunk:
                da, td = da.chunk({nm("ca"): 1}), td.chunk({nm("cb"): 1})
            res = grid.transform(da, nm("Z"), bb, target_data=td, method="conservative", **more)
            newdim = [d for d in res.dims if d not in (nm("ca"), nm("cb"))]
            res = res.transpose(nm("ca"), nm("cb"), *newdim)
            return np.asarray(res.values).reshape(ncol, -1), newdim
        da = xr.DataArray(phi if extra_first else phi.T, dims=(nm("col"), nm("zc")) if extra_first else (nm("zc"), nm("col")), name=nm("phi"))
        td = tdata
        if chunk:
            da = da.chunk({nm("col"): 1})
            td = td.chunk({nm("col"): 1})
        if td_default:
            res = grid.transform(da, nm("Z"), xr.DataArray(bb, dims=[nm("theta")]), method="conservative", **more)
        else:
            res = grid.transform(da, nm("Z"), bb, target_data=td, method="conservative", **more)
        newdim = [d for d in res.dims if d != nm("col")]
        res = res.transpose(nm("col"), *newdim)
        return np.asarray(res.values), newdim

    if ncol % 2 == 0:
        # an earlier transform on the same Grid by another method
        try:
            grid.transform(xr.DataArray(np.ones((ncol, n)), dims=(nm("col"), nm("zc"))), nm("Z"), b,
                           target_data=xr.DataArray(np.tile(np.arange(n) * 1.0, (ncol, 1)), dims=(nm("col"), nm("zc"))), method="linear")
        except Exception:
            pass
    W = [[None] * n for _ in range(ncol)]
    newdim = None
    for i in range(n):
        phi = np.zeros((ncol, n))
        phi[:, i] = 1.0
        out, newdim = run(phi)
        for c in range(ncol):
            W[c][i] = [model.enc_rat(v) for v in out[c]]
    phis = [[rng.randint(-5, 5) for _ in range(n)] for _ in range(ncol)]
    out, _ = run(np.array(phis, dtype="float64"))
    lin = [[model.enc_rat(v) for v in out[c]] for c in range(ncol)]
    out, _ = run(np.array(phis, dtype="float64"), b[::-1].copy())
    lin_rev = [[model.enc_rat(v) for v in out[c]] for c in range(ncol)]
    return W, phis, lin, lin_rev, newdim


def execute(job):
    """job: dict(via, thetas, bins, ids, seed, ...) -> list of records (one per column)"""
    rng = random.Random(job["seed"])
    recs = []
    try:
        if job["via"] == "kernel":
            W, phis, lin, lin_rev = kernel_batch(job["thetas"], job["bins"], rng, job.get("tdtype", "float64"), job.get("bin_den", 1),
                                                 tuple(job.get("affine", (0.0, 1.0))))
            newdim = ["-"]
            thetas = job["thetas"]
            scale = 1
        else:
            centres = job["via"] == "grid-centres"
            W, phis, lin, lin_rev, newdim = grid_batch(job["thetas"], job["bins"], rng, centres, job.get("chunk", False),
                                                       job.get("extra_first", True), None, job.get("tdtype", "float64"),
                                                       job.get("bin_den", 1), job.get("bypass"), tuple(job.get("affine", (0.0, 1.0))),
                                                       bool(job.get("td_default")), tuple(job.get("more_pos", ())),
                                                       bool(job.get("split")))
            scale = 2 if centres else 1
            if centres:
                thetas = []
                for tc in job["thetas"]:
                    thetas.append([(tc[max(k - 1, 0)] + tc[min(k, len(tc) - 1)]) for k in range(len(tc) + 1)])
            else:
                thetas = job["thetas"]
        den = job.get("bin_den", 1)
        for c, cid in enumerate(job["ids"]):
            recs.append({"id": cid, "ev": "Conservative", "via": job["via"], "theta": [v * den for v in thetas[c]],
                         "thetac": [v * den for v in job["thetas"][c]] if job["via"] == "grid-centres" else [],
                         "tdtype": job.get("tdtype", "float64"), "bin_den": den, "bypass": str(job.get("bypass")),
                         "bins": [v * scale for v in job["bins"]], "phi": phis[c], "ncol": len(job["ids"]),
                         "chunk": bool(job.get("chunk")), "expect_newdim": ["-"] if job["via"] == "kernel" else ["theta"],
                         "affine": list(job.get("affine", (0.0, 1.0))), "td_default": bool(job.get("td_default")),
                         "more_pos": list(job.get("more_pos", [])),
                         "out": {"k": "weights", "W": W[c], "lin": lin[c], "lin_rev": lin_rev[c], "newdim": newdim}})
    except Exception as ex:
        for c, cid in enumerate(job["ids"]):
            recs.append({"id": cid, "ev": "Conservative", "via": job["via"], "theta": job["thetas"][c], "thetac": [],
                         "bins": job["bins"], "phi": [], "ncol": len(job["ids"]), "chunk": bool(job.get("chunk")),
                         "expect_newdim": ["-"], "out": model.encode_error(ex)})
    return recs


def gen_jobs(rng, thorough):
    jobs, cid = [], 0
    # exhaustive small space through the kernel: group columns of equal length into one call
    T = 3
    maxn = 3 if thorough else 2
    for n in range(1, maxn + 1):
        thetas = [list(t) for t in itertools.product(range(T + 1), repeat=n + 1)]
        for bins in inc_seqs(T):
            for b in (bins, bins[::-1]):
                for k in range(0, len(thetas), 16):
                    grp = thetas[k:k + 16]
                    ids = list(range(cid + 1, cid + 1 + len(grp)))
                    cid += len(grp)
                    jobs.append({"via": "kernel", "thetas": grp, "bins": b, "ids": ids, "seed": cid})
    # random larger columns, all routes
    for _ in range(3000 if thorough else 500):
        n = rng.randint(1, 5)
        T2 = rng.randint(3, 8)
        ncol = rng.randint(1, 4)
        via = rng.choice(["kernel", "grid-bounds", "grid-bounds", "grid-centres"])
        ln = n if via == "grid-centres" else n + 1
        thetas = [[rng.randint(0, T2) for _ in range(ln)] for _ in range(ncol)]
        k = rng.randint(2, min(T2 + 1, 6))
        bin_den = rng.choice([1, 1, 2])
        # bins in units of 1 / bin_den (half-integer edges when bin_den = 2)
        bins = sorted(rng.sample(range(-bin_den, bin_den * (T2 + 1) + 1), k))
        if rng.random() < 0.4:
            bins = bins[::-1]
        ids = list(range(cid + 1, cid + 1 + ncol))
        cid += ncol
        tdtype = rng.choice(["float64", "float64", "float32", "int64", "int32"])
        affine = (0.0, 1.0)
        if tdtype == "float64" and rng.random() < 0.3:
            affine = rng.choice([(1024.0, 2.0 ** -10), (1024.0, 2.0 ** -14), (-8.0, 0.5), (0.0, 2.0 ** -20)])
        td_default = via == "grid-bounds" and rng.random() < 0.2
        if td_default:
            thetas = [thetas[0] for _ in thetas]
        jobs.append({"via": via, "thetas": thetas, "bins": bins, "ids": ids, "seed": cid, "bin_den": bin_den,
                     "tdtype": tdtype, "affine": list(affine), "td_default": td_default,
                     "more_pos": rng.sample(["left", "right", "inner"], rng.choice([0, 0, 1, 2])) if n >= 2 else [],
                     "bypass": rng.choice([None, None, True, False]) if via != "kernel" else None,
                     "chunk": rng.random() < 0.4, "extra_first": rng.random() < 0.5, "split": rng.random() < 0.35})
    return jobs


def classify(rec, clauses):
    cl = "+".join(sorted(set(clauses)))
    return f"conservative-{cl}-{rec['via']}"


def run(ctx):
    thorough = ctx.tier == "thorough"
    ctx.mc("MC_Conservative", "MC_Conservative_thorough.cfg" if thorough else "MC_Conservative_ok.cfg")
    ctx.mc("MC_Conservative", "MC_Conservative_pinned.cfg", expect_violation="Admissible")
    rng = random.Random(ctx.seed * 160481183 + 7)
    jobs = gen_jobs(rng, thorough)
    recs = [r for rs in ctx.pmap(execute, jobs, chunksize=8) for r in rs]
    bad = ctx.validate("C07Trace", recs, jvms=16 if thorough else 8, chunk=2500)
    for r in recs:
        ctx.nontrivial.add((tuple(r["theta"]), tuple(r["bins"]), r["via"], r["chunk"]))
        if r["id"] in bad:
            ctx.reject(classify(r, bad[r["id"]]), f"spec rejects record: {bad[r['id']]}", r)
    ctx.evaluations = len(recs)
    ctx.extra["kernel_calls"] = sum(len(j["thetas"][0]) for j in jobs)
    ctx.extra["exhaustive_kernel_space"] = "n<=%d, theta and bins in 0..3, both bin directions" % (3 if thorough else 2)

    def corrupt(r):
        if r["out"]["k"] != "weights":
            return False
        for row in r["out"]["W"]:
            for w in row:
                if w[0] != 0:
                    w[0] += w[1]
                    return True
        return False

    ctx.selftest_corrupt("C07Trace", recs, bad, corrupt=corrupt, kind=lambda r: r["via"])
    for via in ("kernel", "grid-centres"):
        r = next((x for x in recs if x["via"] == via and x["out"]["k"] == "weights"), None)
        if r:
            ctx.sample({"via": via, "theta": r["theta"], "bins": r["bins"], "W": r["out"]["W"]})
    ctx.assumptions += ["numba is not installed: the kernels run through the pure-Python guvectorize stand-in of harness/numba_shim",
                        "integer target values; NaN target values are not exercised"]


def replay(ctx, rp):
    from ..core import setup_import_path

    setup_import_path()
    ctx.extra["note"] = "replay re-validates the recorded columns through the kernel"
    recs = []
    for c in rp["cases"]:
        if c["via"] == "grid-centres":
            job = {"via": c["via"], "thetas": [[v // c.get("bin_den", 1) for v in c["thetac"]]], "bins": [b // 2 for b in c["bins"]],
                   "ids": [c["id"]], "seed": 1}
        else:
            den = c.get("bin_den", 1)
            job = {"via": c["via"], "thetas": [[v // den for v in c["theta"]]], "bins": c["bins"], "ids": [c["id"]], "seed": 1}
        job.update({"affine": c.get("affine", [0.0, 1.0]), "td_default": c.get("td_default", False), "more_pos": c.get("more_pos", [])})
        job.update({"bin_den": c.get("bin_den", 1), "tdtype": c.get("tdtype", "float64"),
                    "bypass": {"True": True, "False": False}.get(c.get("bypass"))})
        recs += execute(job)
    bad = ctx.validate("C07Trace", recs)
    for r in recs:
        if r["id"] in bad:
            ctx.reject(classify(r, bad[r["id"]]), f"spec rejects record: {bad[r['id']]}", r)
