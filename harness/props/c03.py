"""C03: scalar diff/interp/min/max are invariant to how the domain is cut into oriented faces."""
import random

from .. import faces, gen, model
from ..model import M, NONE, S
from . import c05

LEVEL = "model_checking"
RULE = ("records = real Grid.diff/interp/min/max calls on grids built from oriented decompositions (1x1..3x2 blocks, "
        "each direction open or periodic, an element of D4 per face, junctions expressible), cell-centred integer data, "
        "face dim anywhere among 0-1 extra dims, every rule on open edges; expectation computed by TLC from the "
        "orientations only; non-trivial = distinct (K, per, orientation tuple) x (op, axis, to)"
        ' Face tables are spelt with their dictionaries in any insertion order and with Python or numpy flags; a quarter of the calls follow an earlier operation on the same Grid.')

OPS = ["diff", "interp", "min", "max"]


def gen_case(rng, cid, nmax=3, rotations_only=False, ev="FaceOp"):
    while True:
        N = rng.randint(2, nmax)
        K, per, orient, entries = faces.random_expressible(rng, rotations_only=rotations_only)
        if ev == "FaceOp" and rng.random() < 0.04:
            # more than ten faces (a 13-tile LLC grid has that many), all in one orientation
            K = rng.choice([(6, 2), (4, 3), (11, 1), (2, 6)])
            per = (rng.random() < 0.5, rng.random() < 0.5)
            orient = faces.random_orient(rng, 1, rotations_only) * (K[0] * K[1])
            entries, ok = faces.derive_table(K, per, orient)
            if not ok:
                continue
            N = 2
        nf = K[0] * K[1]
        if not entries:
            continue
        g = c05.face_grid(rng, N, nf, entries, nextra=rng.choice([0, 0, 1]))
        axnames = ["a1", "a2"]
        g["ctor"] = {"periodic": {"k": "b", "v": rng.random() < 0.3},
                     "boundary": gen.rand_tagged(rng, axnames, gen.RULES, partial=True),
                     "fill_value": gen.rand_tagged(rng, axnames, [-3, 0, 2, 7], partial=True), "default_shifts": NONE}
        d1 = [["d9", nf], ["d1", N], ["d4", N]] + [list(e) for e in g["extra"]]
        rng.shuffle(d1)
        data = gen.rand_data(rng, d1, -9, 9)
        if rng.random() < 0.25:
            gen.sprinkle_nan(rng, data, "d9")       # land cells next to a junction, blank tiles
        axis = rng.choice(axnames)
        return {"id": cid, "ev": ev, "op": rng.choice(OPS), "grid": g,
                "decomp": {"K": list(K), "per": list(per), "orient": [list(o) for o in orient]},
                "args": {"data": data, "axis": [axis], "to": S(rng.choice(["left", "right"])),
                         "boundary": gen.rand_tagged(rng, axnames, gen.RULES, partial=True),
                         "fill_value": gen.rand_tagged(rng, axnames, [-3, 0, 2, 7], partial=True)}}


def execute(case):
    nm = model.Names(case["grid"].get("names"))
    rec = dict(case)
    try:
        grid, ds = model.make_grid(case["grid"])
        a = case["args"]
        da = model.make_array(a["data"], nm, ds, name="v1")
        kw = model.call_kwargs(a, nm)
        if case.get("id", 0) % 4 == 0:
            # an earlier operation on the same Grid (other axis, other data): nothing of it may linger
            try:
                getattr(grid, case["op"])(da * 2 + 1, nm("a2" if a["axis"][0] == "a1" else "a1"), boundary="extend")
            except Exception:
                pass
        res = getattr(grid, case["op"])(da, nm(a["axis"][0]), **kw)
        rec["out"] = model.encode_result(res, 2 if case["op"] == "interp" else 1, nm)
    except Exception as ex:
        rec["out"] = model.encode_error(ex)
    return rec


def klass(r):
    d = r["decomp"]
    return (tuple(d["K"]), tuple(d["per"]), tuple(map(tuple, d["orient"])), r["op"], r["args"]["axis"][0], r["args"]["to"]["v"])


def classify(rec, clauses):
    return f"{rec['ev'].lower()}-" + "+".join(sorted(set(clauses)))


def run(ctx, module="C03Trace"):
    thorough = ctx.tier == "thorough"
    ctx.mc("MC_FaceTopology", "MC_FaceTopology_thorough.cfg" if thorough else "MC_FaceTopology_quick.cfg")
    if thorough:
        faces.unbounded_face_checks(ctx, ("2x1N2", "2x2N2"))
        for shape in ("3x1", "1x3", "2x1N3", "1x1"):
            ctx.mc("MC_FaceTopology", f"MC_FaceTopology_{shape}.cfg", workers=8)
    rng = random.Random(ctx.seed * 49979687 + 3)
    n = 10000 if thorough else 1200
    cases = [gen_case(rng, k + 1) for k in range(n)]
    recs = ctx.pmap(execute, cases, chunksize=4)
    bad = ctx.validate(module, recs, jvms=16 if thorough else 8, chunk=250)
    kinds = set()
    for r in recs:
        ctx.nontrivial.add(klass(r))
        kinds |= faces.link_kinds(r["grid"]["faces"]["table"])
        if r["id"] in bad:
            ctx.reject(classify(r, bad[r["id"]]), f"spec rejects record: {bad[r['id']]}", r)
    ctx.evaluations = len(recs)
    ctx.extra["link_kinds_covered"] = sorted([list(k) for k in kinds])
    ctx.selftest_corrupt(module, recs, bad)
    r = recs[0]
    ctx.sample({"decomp": r["decomp"], "table": r["grid"]["faces"]["table"], "op": r["op"], "axis": r["args"]["axis"],
                "to": r["args"]["to"], "data_dims": r["args"]["data"]["dims"], "out_flat": r["out"].get("flat")})
    ctx.assumptions += ["small integer data", "faces of N = 2..3 cells, at most 6 faces"]


def replay(ctx, rp):
    from ..core import setup_import_path

    setup_import_path()
    recs = [execute({k: v for k, v in c.items() if k != "out"}) for c in rp["cases"]]
    bad = ctx.validate("C03Trace", recs)
    for r in recs:
        if r["id"] in bad:
            ctx.reject(classify(r, bad[r["id"]]), f"spec rejects record: {bad[r['id']]}", r)
