"""C20: ill-posed requests raise instead of returning an array."""
import copy
import random

from .. import gen, model
from ..model import FACE, M, NONE, POS, S, plen
from . import c01, c11

LEVEL = "model_checking"
RULE = ("records = valid diff/interp/min/max/cumsum calls, and derivative/cumint/integrate/average calls on grids with "
        "every metric registered, from C01's generator, each edited once into one of the "
        "ill-posed classes (axis the grid lacks, data without / with two dimensions of the axis, shift to the same "
        "position, position the axis lacks, unknown boundary or position word, non-numeric fill value), transform "
        "requests (periodic axis, non-monotonic conservative bins, conservative without outer), grid-ufunc calls with "
        "inputs on wrong positions or wrong arity (C11's generator); the TLA+ specification classifies every record "
        "itself; non-trivial = distinct (class, op, layout) combinations"
        ' Also: metric-weighted operators, sequences of numbers as fill value, the empty position word, bypass_checks / DataArray targets / unsigned bins in transform requests.')

EDITS = ["axis-missing", "no-dim", "two-dims", "same-position", "absent-position", "face-to-face", "boundary-word", "position-word", "fill-nonnumeric"]


def edit_case(rng, c, kind):
    c = copy.deepcopy(c)
    a, g = c["args"], c["grid"]
    a["fill_bad"] = False
    axd = {x["name"]: x for x in g["axes"]}
    k = rng.randrange(len(a["axis"]))
    name = a["axis"][k]
    ax = axd[name]
    dims = a["data"]["dims"]
    mydim = next(d for _, d in ax["pos"] if d in dims)
    frm = next(p for p, d in ax["pos"] if d == mydim)
    if kind == "axis-missing":
        a["axis"][k] = "a9"
        if a["to"]["k"] == "m":
            a["to"]["v"] = [[("a9" if x == name else x), t] for x, t in a["to"]["v"]]
    elif kind == "no-dim":
        i = dims.index(mydim)
        if len(dims) == 1:
            return None
        L = a["data"]["shape"][i]
        a["data"]["dims"].pop(i)
        a["data"]["shape"].pop(i)
        size = 1
        for s_ in a["data"]["shape"]:
            size *= s_
        a["data"]["flat"] = a["data"]["flat"][:size]
    elif kind == "two-dims":
        others = [(p, d) for p, d in ax["pos"] if d != mydim]
        if not others:
            return None
        p, d = rng.choice(others)
        a["data"]["dims"].append(d)
        a["data"]["shape"].append(plen(p, ax["n"]))
        size = 1
        for s_ in a["data"]["shape"]:
            size *= s_
        if size > 200:
            return None
        a["data"]["flat"] = [rng.randint(-9, 9) for _ in range(size)]
    elif kind in ("same-position", "absent-position", "position-word", "face-to-face"):
        if kind == "same-position":
            t = frm
        elif kind == "face-to-face":
            # from one face position to another one the axis has (neither is the centre)
            others = [p for p, _ in ax["pos"] if p not in ("center", frm)]
            if frm == "center" or not others:
                return None
            t = rng.choice(others)
        elif kind == "absent-position":
            absent = [p for p in POS if p not in [q for q, _ in ax["pos"]]]
            if not absent:
                return None
            t = rng.choice(absent)
        else:
            t = rng.choice(["middle", "centre", "Left", "up", ""])          # the empty word is no position either
            if rng.random() < 0.4:
                # one of the five words with a blank in it, before it or behind it: not one of the five words
                w = rng.choice(POS)
                k_ = rng.randrange(len(w) + 1)
                t = w[:k_] + " " + w[k_:]
        pairs = []
        for x in a["axis"]:
            if x == name:
                pairs.append([x, t])
            else:
                xa = axd[x]
                xf = next(p for p, d in xa["pos"] if d in dims)
                cur = c01.default_shift(g["ctor"], xa, xf)
                if a["to"]["k"] == "s":
                    cur = a["to"]["v"]
                elif a["to"]["k"] == "m":
                    cur = dict((q, w) for q, w in a["to"]["v"]).get(x, cur)
                pairs.append([x, cur])
        a["to"] = M(pairs)
        if kind == "same-position" and len(a["axis"]) > 1 and rng.random() < 0.7:
            # one position word for every axis of the call: the data is there already along (at least) this axis
            a["to"] = S(t)
    elif kind == "boundary-word":
        w = rng.choice(["bogus", "Fill", "wrap", "dirichlet"])
        r_ = rng.random()
        if r_ < 0.4:
            a["boundary"] = S(w)
        elif r_ < 0.7 or len(axd) == 1:
            a["boundary"] = M([[x, (w if x == name else "fill")] for x in axd])
        else:
            # the unknown word sits on an axis the call does not operate on
            other = rng.choice([x for x in axd if x != name])
            a["boundary"] = M([[x, (w if x == other else "fill")] for x in axd])
    elif kind == "fill-nonnumeric":
        a["fill_bad"] = True
    c["edit"] = kind
    c["ev"] = "Ill"
    return c


METRIC_OPS = ["derivative", "cumint", "integrate", "average"]
NOSHIFT_EDITS = ["axis-missing", "no-dim", "two-dims"]


def gen_cases(rng, n):
    out = []
    while len(out) < n:
        if rng.random() < 0.25:
            # the metric-weighted operators, on a grid with a metric registered for every axis at every position
            base = c01.gen_case(rng, 0, ops=METRIC_OPS, maxelems=60)
            if base["op"] in ("integrate", "average"):
                base["args"]["to"] = NONE
                kind = rng.choice(NOSHIFT_EDITS)
            else:
                kind = rng.choice(EDITS)
        else:
            base = c01.gen_case(rng, 0, ops=c01.OPS + ["cumsum"], maxelems=60)
            kind = rng.choice(EDITS)
        c = edit_case(rng, base, kind)
        if c is not None:
            out.append(c)
    return out


def execute(case):
    if case["ev"] == "TransformIll":
        return exec_transform(case)
    nm = model.Names(case["grid"].get("names"))
    rec = dict(case)
    try:
        a = case["args"]
        if case["op"] in METRIC_OPS:
            import numpy as np

            ds = model.build_dataset(case["grid"])
            for ax in case["grid"]["axes"]:
                for p, d in ax["pos"]:
                    ds["m_" + nm(d)] = (nm(d), np.full(plen(p, ax["n"]), 2.0))
            grid, ds = model.make_grid(case["grid"], ds=ds)
            for ax in case["grid"]["axes"]:
                grid.set_metrics((nm(ax["name"]),), ["m_" + nm(d) for _, d in ax["pos"]])
        else:
            grid, ds = model.make_grid(case["grid"])
        da = model.make_array(a["data"], nm, None, name="v1")
        kw = model.call_kwargs(a, nm)
        if case["op"] in ("integrate", "average"):
            kw = {}
        if a.get("fill_bad"):
            import numpy as np

            # not a number: text, or a sequence / array of numbers, given for every axis or inside a per-axis mapping
            bad = ["abc", [1.0, 2.0], (5.0, 7.0), np.array([1.0, 2.0, 3.0]), [0.0]][(case["id"] // 2) % 5]
            kw["fill_value"] = bad if case["id"] % 2 else {nm(x["name"]): bad for x in case["grid"]["axes"]}
        res = getattr(grid, case["op"])(da, [nm(x) for x in a["axis"]], **kw)
        rec["out"] = {"k": "array", "dims": [str(d) for d in res.dims], "shape": [int(s) for s in res.shape]}
    except Exception as ex:
        rec["out"] = model.encode_error(ex)
    return rec


def exec_transform(case):
    import numpy as np
    import xarray as xr
    import xgcm

    rec = dict(case)
    t = case["t"]
    try:
        n = 4
        coords = {"zc": ("zc", np.arange(n) + 0.5)}
        pos = {"center": "zc"}
        if t["has_outer"]:
            coords["zo"] = ("zo", np.arange(n + 1) * 1.0)
            pos["outer"] = "zo"
        else:
            coords["zl"] = ("zl", np.arange(n) * 1.0)
            pos["left"] = "zl"
        ds = xr.Dataset(coords=coords)
        kw = {"periodic": True} if t["periodic"] == "default" else ({"boundary": "periodic"} if t["periodic"] else {"periodic": False})
        grid = xgcm.Grid(ds, coords={"Z": pos}, autoparse_metadata=False, **kw)
        da = xr.DataArray(np.arange(n) * 1.0, dims=["zc"], name="phi")
        tdim = "zo" if (t["method"] == "conservative" and t["has_outer"]) else "zc"
        theta = xr.DataArray(np.arange(len(coords[tdim][1])) * 2.0, dims=[tdim], name="theta")
        more = {} if t.get("bypass", "none") == "none" else {"bypass_checks": t["bypass"] == "true"}
        target = np.array(t["bins"], dtype=t.get("bins_dtype", "float64"))       # small non-negative integers: exact in every dtype
        if t.get("target_da"):
            target = xr.DataArray(target, dims=["lev"])
            if t.get("target_lazy"):
                target = target.chunk({"lev": 1 + len(t["bins"]) // 2})
        if t.get("data_lazy"):
            da = da.expand_dims(e=2).chunk({"e": 1})
        res = grid.transform(da, "Z", target, target_data=theta, method=t["method"], **more)
        res = res.compute()          # a lazy answer refused only when it is computed is still refused
        rec["out"] = {"k": "array", "dims": [str(d) for d in res.dims], "shape": [int(s) for s in res.shape]}
    except Exception as ex:
        rec["out"] = model.encode_error(ex)
    rec["t"] = dict(t, periodic=bool(t["periodic"]))
    return rec


def gen_transform(rng, n):
    out = []
    for _ in range(n):
        method = rng.choice(["linear", "log", "conservative"])
        bins = sorted(rng.sample(range(1, 9), rng.randint(2, 4)))
        r = rng.random()
        if r < 0.3:
            bins = bins[::-1]
        elif r < 0.55 and len(bins) >= 3:
            bins[0], bins[1] = bins[1], bins[0]
        elif r < 0.7:
            # not strictly monotonic without ever turning back: a repeated edge (in either listing order), all edges equal
            k = rng.randrange(len(bins) - 1)
            bins[k + 1] = bins[k]
            if rng.random() < 0.25:
                bins = [bins[0]] * len(bins)
            if rng.random() < 0.5:
                bins = bins[::-1]
        out.append({"ev": "TransformIll", "t": {"periodic": rng.choice([False, False, True, "default"]), "method": method,
                                                "has_outer": rng.random() < 0.6, "bins": bins,
                                                "bypass": rng.choice(["none", "none", "true", "false"]), "target_da": rng.random() < 0.5,
                                                "target_lazy": rng.random() < 0.6, "data_lazy": rng.random() < 0.2,
                                                "bins_dtype": rng.choice(["float64", "float64", "int64", "uint8", "uint16", "float32"])}})
    return out


def classify(rec, clauses):
    return "answered-" + "+".join(sorted(set(clauses)))


KNOWN_UNUSED = "unknown-boundary-word-or-non-numeric-fill-accepted-when-nothing-is-padded"


def run(ctx):
    thorough = ctx.tier == "thorough"
    rng = random.Random(ctx.seed * 275604541 + 20)
    cases = gen_cases(rng, 20000 if thorough else 3000) + gen_transform(rng, 4000 if thorough else 1500)
    for k, c in enumerate(cases):
        c["id"] = k + 1
    recs = ctx.pmap(execute, cases)
    bad = ctx.validate("C20Trace", recs, jvms=16 if thorough else 8, chunk=600)
    # the ufunc classes (wrong positions, wrong number of inputs) through C11's generator and specification
    ucases = []
    while len(ucases) < (3000 if thorough else 500):
        c = c11.gen_case(rng, len(cases) + len(ucases) + 1)
        if c["edit"] != "none":
            ucases.append(c)
    urecs = ctx.pmap(c11.execute, ucases)
    ubad = ctx.validate("C11Trace", urecs, jvms=8, chunk=400)
    classes = {}
    for rid, cl in ctx.tags.get("C", {}).items():
        classes[cl[0]] = classes.get(cl[0], 0) + 1
    classes["ufunc-input-on-wrong-position"] = sum(1 for r in urecs if r["edit"] == "wrong-position")
    classes["ufunc-wrong-number-of-inputs"] = sum(1 for r in urecs if r["edit"] == "arity")
    classes["ufunc-input-with-two-dimensions-of-an-axis"] = sum(1 for r in urecs if r["edit"] == "two-dims")
    for r in recs:
        ctx.nontrivial.add((r.get("edit") or str(r.get("t")), r.get("op"), len(r.get("args", {}).get("axis", []))))
        if r["id"] in bad:
            ctx.reject(classify(r, bad[r["id"]]), f"ill-posed request answered with an array: {bad[r['id']]}", r)
    for r in urecs:
        if r["id"] in ubad:
            ctx.reject("ufunc-" + "+".join(ubad[r["id"]]), f"spec rejects record: {ubad[r['id']]}", r)
    if thorough:
        from .. import suite

        suite.validate(ctx, "C20-")
    ctx.evaluations = len(recs) + len(urecs)
    ctx.extra["ill_posed_records_by_class"] = classes
    missing = [c for c in ("axis-the-grid-lacks", "data-without-a-dimension-of-the-axis", "data-with-two-dimensions-of-the-axis",
                           "shift-to-the-same-position", "position-the-axis-lacks", "unknown-boundary-word", "unknown-position-word",
                           "non-numeric-fill-value", "transform-along-a-periodic-axis", "non-monotonic-conservative-bins",
                           "conservative-without-outer-positions") if not classes.get(c)]
    if missing:
        ctx.vacuous += [f"class never generated: {c}" for c in missing]

    def corrupt(r):
        if r["out"]["k"] == "error" and (r.get("edit") or r["ev"] == "TransformIll"):
            r["out"] = {"k": "array", "dims": [], "shape": []}
            return True
        return False

    ctx.selftest_corrupt("C20Trace", [r for r in recs if r["id"] in ctx.tags.get("C", {})], bad, corrupt=corrupt,
                         kind=lambda r: r.get("edit") or "transform")
    r = recs[0]
    ctx.sample({"edit": r.get("edit"), "op": r.get("op"), "axis": r["args"]["axis"], "to": r["args"]["to"], "out": r["out"]})
    ctx.assumptions += ["which requests are ill-posed is decided by spec/Errors.tla from the property text, not from the driver's edit label"]


def replay(ctx, rp):
    from ..core import setup_import_path

    setup_import_path()
    recs = [execute({k: v for k, v in c.items() if k != "out"}) for c in rp["cases"] if c.get("ev") in ("Ill", "TransformIll")]
    bad = ctx.validate("C20Trace", recs)
    for r in recs:
        if r["id"] in bad:
            ctx.reject(classify(r, bad[r["id"]]), f"ill-posed request answered with an array: {bad[r['id']]}", r)
