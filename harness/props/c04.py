"""C04: C-grid vector components cross rotated face links with the right partner and sign."""
import random

from .. import faces, gen, model
from ..model import M, NONE, S
from . import c01, c03, c05

LEVEL = "model_checking"
RULE = ("FaceVec records = real Grid.diff/interp of one component along its own axis to cell centres with "
        "other_component, on decompositions whose faces are rotated (all junctions non-reversed), left- or "
        "right-staggered components, extra dims, every rule on open edges; expectation = the value the neighbouring "
        "face stores for the shared edge, found by TLC from the orientations; VecPlain records = {axis: u} vs u on "
        "grids without face connections; Vec2D records = real diff_2d_vector / interp_2d_vector calls, both entries "
        "validated as the one-component calls they stand for; non-trivial = distinct (decomposition, component, op, staggering)"
        ' Also: partner components without the extra dimension, components of different dtypes (an integer component next to a partner with fractional values), tables in any insertion order with Python or numpy flags.')


def gen_vec(rng, cid, nmax=3, two=False):
    while True:
        N = rng.randint(2, nmax)
        K, per, orient, entries = faces.random_expressible(rng, rotations_only=True)
        nf = K[0] * K[1]
        if not entries:
            continue
        g = c05.face_grid(rng, N, nf, entries, nextra=rng.choice([0, 0, 1]))
        axnames = ["a1", "a2"]
        g["ctor"] = {"periodic": {"k": "b", "v": rng.random() < 0.3},
                     "boundary": gen.rand_tagged(rng, axnames, gen.RULES, total_only=True),
                     "fill_value": gen.rand_tagged(rng, axnames, [-3, 0, 2, 7], total_only=True), "default_shifts": NONE}
        st = rng.choice(["left", "right"])
        pos1, pos2 = dict(g["axes"][0]["pos"]), dict(g["axes"][1]["pos"])
        du = [["d9", nf], [pos1[st], N], [pos2["center"], N]] + [list(e) for e in g["extra"]]
        dv = [["d9", nf], [pos1["center"], N], [pos2[st], N]] + [list(e) for e in g["extra"]]
        rng.shuffle(du)
        rng.shuffle(dv)
        comp = rng.choice(axnames)
        halves = False
        if g["extra"] and not two and rng.random() < 0.4:
            # a partner that does not depend on the extra dimension (a steady field next to a time-dependent one)
            ex = {e[0] for e in g["extra"]}
            if comp == "a1":
                dv = [d for d in dv if d[0] not in ex]
            else:
                du = [d for d in du if d[0] not in ex]
        u, v = gen.rand_data(rng, du, -9, 9), gen.rand_data(rng, dv, -9, 9)
        data, other = (u, v) if comp == "a1" else (v, u)
        if not two and rng.random() < 0.2:
            # an integer component next to a partner with fractional values (records hold twice the real values)
            data["flat"] = [2 * x for x in data["flat"]]
            other["flat"] = [2 * x + 1 for x in other["flat"]]
            data["den"] = other["den"] = 2
            data["dtype"] = rng.choice(["int32", "int64"])
            halves = True
        if not halves and rng.random() < 0.25:
            for part in rng.choice([[u], [v], [u, v]]):
                gen.sprinkle_nan(rng, part, "d9")     # land cells next to a junction, blank tiles
        if two:
            data, other = (u, v) if comp == "a1" else (v, u)
            return {"id": cid, "ev": "Vec2D", "op": rng.choice(["diff", "interp"]), "grid": g,
                    "decomp": {"K": list(K), "per": list(per), "orient": [list(o) for o in orient]},
                    "args": {"data": data, "other": other, "axis": [comp], "axisb": ["a2" if comp == "a1" else "a1"],
                             "to": rng.choice([NONE, S("center")]),
                             "boundary": gen.rand_tagged(rng, axnames, gen.RULES, partial=True),
                             "fill_value": gen.rand_tagged(rng, axnames, [-3, 0, 2, 7], partial=True)}}
        case = {"id": cid, "ev": "FaceVec", "op": rng.choice(["diff", "interp"]), "grid": g,
                "decomp": {"K": list(K), "per": list(per), "orient": [list(o) for o in orient]},
                "args": {"data": data, "other": other, "axis": [comp], "to": rng.choice([NONE, S("center")]),
                         "boundary": gen.rand_tagged(rng, axnames, gen.RULES, partial=True),
                         "fill_value": gen.rand_tagged(rng, axnames, [-3, 0, 2, 7], partial=True)}}
        if halves:
            def twice(t):
                if t["k"] == "s":
                    return {"k": "s", "v": 2 * t["v"]}
                if t["k"] == "m":
                    return {"k": "m", "v": [[a_, 2 * v_] for a_, v_ in t["v"]]}
                return t
            g["ctor"]["fill_value"] = twice(g["ctor"]["fill_value"])
            case["args"]["fill_value"] = twice(case["args"]["fill_value"])
            g["fill_den"] = case["args"]["fill_den"] = 2
        return case


def gen_plain(rng, cid):
    while True:
        c = c01.gen_case(rng, cid, ops=["diff", "interp"], ev="VecPlain")
        if len(c["args"]["axis"]) == 1 and len(c["grid"]["axes"]) >= 2:
            # partner: any other axis; its array is irrelevant without face connections
            other_ax = next(a for a in c["grid"]["axes"] if a["name"] != c["args"]["axis"][0])
            c["args"]["other_axis"] = other_ax["name"]
            return c


def execute(case):
    nm = model.Names(case["grid"].get("names"))
    rec = dict(case)
    a = case["args"]
    try:
        grid, ds = model.make_grid(case["grid"])
        da = model.make_array(a["data"], nm, ds, name="v1")
        kw = model.call_kwargs(a, nm)
        scale = (2 if case["op"] == "interp" else 1) * a["data"].get("den", 1)
        if case["ev"] == "FaceVec":
            oth = model.make_array(a["other"], nm, ds, name="v2")
            other_ax = "a2" if a["axis"][0] == "a1" else "a1"
            res = getattr(grid, case["op"])({nm(a["axis"][0]): da}, nm(a["axis"][0]),
                                            other_component={nm(other_ax): oth}, **kw)
            rec["out"] = model.encode_result(res, scale, nm)
        elif case["ev"] == "Vec2D":
            import warnings

            oth = model.make_array(a["other"], nm, ds, name="v2")
            with warnings.catch_warnings():
                warnings.simplefilter("ignore")
                res = getattr(grid, case["op"] + "_2d_vector")({nm(a["axis"][0]): da, nm(a["axisb"][0]): oth}, **kw)
            inv = nm.inv()
            rec["keys"] = [inv.get(k, str(k)) for k in res]
            vals = list(res.values())
            rec["out"] = model.encode_result(vals[0], scale, nm)
            rec["outb"] = model.encode_result(vals[1], scale, nm)
        else:
            plain = getattr(grid, case["op"])(da, nm(a["axis"][0]), **kw)
            rec["out2"] = model.encode_result(plain, scale, nm)
            try:
                res = getattr(grid, case["op"])({nm(a["axis"][0]): da}, nm(a["axis"][0]),
                                                other_component={nm(a["other_axis"]): da}, **kw)
                rec["out"] = model.encode_result(res, scale, nm)
            except Exception as ex:
                rec["out"] = model.encode_error(ex)
    except Exception as ex:
        rec["out"] = model.encode_error(ex)
        rec.setdefault("out2", rec["out"])
        rec.setdefault("outb", rec["out"])
        rec.setdefault("keys", [])
    return rec


def klass(r):
    if r["ev"] == "VecPlain":
        return ("plain", r["op"], r["args"]["to"]["k"], len(r["args"]["data"]["dims"]))
    d = r["decomp"]
    return (tuple(d["K"]), tuple(d["per"]), tuple(map(tuple, d["orient"])), r["op"], r["args"]["axis"][0],
            tuple(r["args"]["data"]["dims"]))


def classify(rec, clauses):
    return f"{rec['ev'].lower()}-" + "+".join(sorted(set(clauses)))


def run(ctx):
    thorough = ctx.tier == "thorough"
    ctx.mc("MC_FaceTopology", "MC_FaceTopology_thorough.cfg" if thorough else "MC_FaceTopology_quick.cfg")
    rng = random.Random(ctx.seed * 67867967 + 4)
    n = 8000 if thorough else 800
    cases = [gen_vec(rng, k + 1) for k in range(n)]
    cases += [gen_plain(rng, n + 1 + k) for k in range(2000 if thorough else 250)]
    n2 = len(cases)
    cases += [gen_vec(rng, n2 + 1 + k, two=True) for k in range(2000 if thorough else 250)]
    recs = ctx.pmap(execute, cases, chunksize=4)
    bad = ctx.validate("C03Trace", recs, jvms=16 if thorough else 8, chunk=250)
    # the scalar-form result of VecPlain records is itself bound to the geometric definition by C01's trace spec
    plain = []
    for r in recs:
        if r["ev"] == "VecPlain" and r["out2"]["k"] == "array":
            p = dict(r, ev="Stencil", out=r["out2"])
            p.pop("out2")
            plain.append(p)
    bad1 = ctx.validate("C01Trace", plain, jvms=8)
    for r in recs:
        ctx.nontrivial.add(klass(r))
        cl = list(bad.get(r["id"], [])) + [f"scalar-form-{c}" for c in bad1.get(r["id"], [])]
        if cl:
            ctx.reject(classify(r, cl), f"spec rejects record: {cl}", r)
    ctx.evaluations = len(recs)
    ctx.selftest_corrupt("C03Trace", recs, bad)
    r = recs[0]
    ctx.sample({"decomp": r["decomp"], "table": r["grid"]["faces"]["table"], "op": r["op"], "component": r["args"]["axis"],
                "data_dims": r["args"]["data"]["dims"], "other_dims": r["args"]["other"]["dims"], "out_flat": r["out"].get("flat")})
    ctx.extra["records_by_event"] = {e: sum(1 for x in recs if x["ev"] == e) for e in ("FaceVec", "VecPlain", "Vec2D")}
    ctx.assumptions += ["small integer data", "rotations only: every junction is a non-reversed link, as the property states"]


def replay(ctx, rp):
    from ..core import setup_import_path

    setup_import_path()
    recs = [execute({k: v for k, v in c.items() if k not in ("out", "out2", "outb", "keys")}) for c in rp["cases"]]
    bad = ctx.validate("C03Trace", recs)
    for r in recs:
        if r["id"] in bad:
            ctx.reject(classify(r, bad[r["id"]]), f"spec rejects record: {bad[r['id']]}", r)
