"""C01: diff/interp/min/max on simple grids are the geometric two-point stencils.
MC: AlgoStencil = GeoStencil (spec/MC_Stencil).  TV: real calls recomputed by spec/C01Trace."""
import itertools
import random

from .. import gen, model
from ..model import FACE, M, NONE, S, SHIFTS, plen

LEVEL = "model_checking"
RULE = ("records = real Grid.diff/interp/min/max calls on random simple grids (1-3 axes, any position subset with "
        "center, n 2..6, 0-2 extra dims in any order, to omitted/scalar/mapping, rule and fill per call or grid "
        "default, small integer data); non-trivial = distinct (op, per-axis (from,to,rule in force), ndim) classes"
        ' Inputs also vary in spelling and state: numpy-scalar fill values, memory layouts (F-order, strided, negative stride, read-only), decreasing / irregular / unsorted coordinate labels, earlier calls with other per-call rules on the same Grid, Grid-level mappings naming only some axes, an extra dimension of length 0, the axes given as a tuple.')

OPS = ["diff", "interp", "min", "max"]


def fallback(present, frm):
    if frm == "center":
        for p in ("left", "right", "outer", "inner"):
            if p in present:
                return p
        return None
    return "center" if "center" in present else None


def default_shift(ctor, ax, frm):
    ds = ctor.get("default_shifts", NONE)
    if ds["k"] == "m":
        for a, pairs in ds["v"]:
            if a == ax["name"]:
                for f, t in pairs:
                    if f == frm:
                        return t
    return fallback([p for p, _ in ax["pos"]], frm)


def gen_case(rng, cid, ops=OPS, nmax=5, maxelems=120, ev="Stencil", allow_empty=False, specials=False):
    while True:
        dimctr = [0]
        naxes = rng.choice([1, 1, 1, 2, 2, 3])
        axes = [gen.rand_axis(rng, k + 1, dimctr, nmax) for k in range(naxes)]
        shared_table = ev == "Stencil" and rng.random() < 0.03
        if shared_table:
            # two axes of different layout given ONE partial default-shift table (it does not speak of the centre): the
            # first has a single face position, the second has two, so their fallbacks from the centre differ
            dimctr = [0]
            f1, f2 = rng.sample(FACE, 2)
            first = gen.rand_axis(rng, 1, dimctr, 3, positions=["center", f2])
            second = gen.rand_axis(rng, 2, dimctr, 3, positions=rng.sample(["center", f1, f2], 3))
            axes = [first, second]
            naxes = 2
        axnames = [a["name"] for a in axes]
        extra = []
        for _ in range(rng.choice([0, 0, 1, 1, 2])):
            dimctr[0] += 1
            extra.append([f"d{dimctr[0]}", rng.randint(1, 3)])
        ctor = gen.rand_ctor(rng, axnames)
        ctor["default_shifts"] = gen.rand_default_shifts(rng, axes)
        if shared_table:
            ctor["default_shifts"] = M([[a["name"], [[f2, "center"]]] for a in axes])
        if ev == "Stencil" and rng.random() < 0.2:
            # Grid-level mappings that name only some axes: the others keep the periodic flag's rule / the fill value 0
            for k_ in ("boundary", "fill_value"):
                if ctor[k_]["k"] == "m" and len(ctor[k_]["v"]) > 1:
                    ctor[k_] = M(rng.sample(list(ctor[k_]["v"]), rng.randint(1, len(ctor[k_]["v"]) - 1)))
        empty_extra = allow_empty and bool(extra) and rng.random() < 0.06
        if empty_extra:
            extra[rng.randrange(len(extra))][1] = 0      # a selection that matched nothing: the result is empty too, on the new dimension
        nop = rng.randint(1, naxes)
        opaxes = rng.sample(axes, nop)
        mode = rng.choice(["none", "s", "m", "m"])
        if shared_table:
            opaxes, mode = rng.choice([[axes[1]], [axes[1], axes[0]], [axes[0], axes[1]]]), "none"
        dims_shape, to_pairs, ok = [], [], True
        scalar_to = None
        if mode == "s":
            scalar_to = rng.choice(["center"] + FACE)
        for ax in axes:
            present = [p for p, _ in ax["pos"]]
            if ax in opaxes:
                if mode == "none":
                    cands = [(f, default_shift(ctor, ax, f)) for f in present]
                    cands = [(f, t) for f, t in cands if t is not None and (f, t) in SHIFTS and t in present]
                elif mode == "s":
                    cands = [(f, scalar_to) for f in present if (f, scalar_to) in SHIFTS and scalar_to in present]
                else:
                    cands = [(f, t) for f, t in SHIFTS if f in present and t in present]
                if not cands:
                    ok = False
                    break
                f, t = rng.choice(cands)
                to_pairs.append([ax["name"], t])
                dims_shape.append([dict(ax["pos"])[f], plen(f, ax["n"])])
            elif rng.random() < 0.5:
                f = rng.choice(present)
                dims_shape.append([dict(ax["pos"])[f], plen(f, ax["n"])])
        if not ok:
            continue
        dims_shape += [list(e) for e in extra]
        rng.shuffle(dims_shape)
        size = 1
        for _, s in dims_shape:
            size *= s
        if size > maxelems or (size == 0 and not empty_extra):
            continue
        to = NONE if mode == "none" else S(scalar_to) if mode == "s" else M(to_pairs)
        if mode == "m":
            rng.shuffle(to["v"])
        data = gen.rand_data(rng, dims_shape)
        if rng.random() < 0.25:
            data["dtype"] = rng.choice(["float32", "int64", "int32"])
        elif specials and rng.random() < 0.12:
            gen.sprinkle_specials(rng, data)        # missing values and infinities among the data
        args = {"data": data, "axis": [a["name"] for a in opaxes], "to": to,
                "boundary": gen.rand_tagged(rng, axnames, gen.RULES, partial=True),
                "fill_value": gen.rand_tagged(rng, axnames, [-3, -2, -1, 0, 1, 2, 3], partial=True)}
        case = {"id": cid, "ev": ev, "op": rng.choice(ops),
                "grid": {"axes": axes, "extra": extra, "ctor": ctor}, "args": args}
        if rng.random() < 0.25:
            case["grid"]["coordvals"] = rng.choice(["decreasing", "irregular", "unsorted"])     # labels play no role in the operators
        if rng.random() < 0.2:
            data["layout"] = rng.choice(["F", "strided", "reversed", "readonly"])
        if rng.random() < 0.2:
            args["npnum"] = rng.choice(["f64", "f32", "i64", "float"])
        if rng.random() < 0.2:
            args["axis_as_tuple"] = True          # "Multiple axes can be passed as list or tuple"
        if rng.random() < 0.2:
            # earlier calls on the same Grid with other per-call rules: the rule in force for a call is that call's
            # argument or the Grid's setting, never what an earlier call was given
            case["before"] = [{"boundary": gen.rand_tagged(rng, axnames, gen.RULES, partial=True),
                               "fill_value": gen.rand_tagged(rng, axnames, [-3, -2, -1, 0, 1, 2, 3], partial=True)}
                              for _ in range(rng.randint(1, 2))]
        return case


def table_cases(start_id, nmin=2, nmax=6, ops=OPS, ev="Stencil"):
    """exhaustive one-axis table: every shift x op x rule (per call and as grid default) x n"""
    cid = start_id
    rng = random.Random(12345)
    out = []
    for (f, t), op, rule, n, how in itertools.product(SHIFTS, ops, gen.RULES, range(nmin, nmax + 1),
                                                      ["call", "grid", "default"]):
        ax = {"name": "a1", "n": n, "pos": [["center", "d1"], [f if f != "center" else t, "d2"]]}
        ctor = {"periodic": {"k": "b", "v": rule == "periodic"}, "boundary": NONE, "fill_value": NONE,
                "default_shifts": NONE}
        b, fv = NONE, NONE
        fill = rng.choice([-2, 0, 3])
        if how == "call":
            b, fv = S(rule), S(fill)
            ctor["periodic"] = {"k": "b", "v": rng.random() < 0.5}
        elif how == "grid":
            ctor["boundary"], ctor["fill_value"] = S(rule), S(fill)
        elif rule == "extend":
            continue  # extend is never a default
        dim = dict(ax["pos"])[f]
        to = rng.choice([NONE, S(t), M([["a1", t]])])
        out.append({"id": cid, "ev": ev, "op": op, "grid": {"axes": [ax], "extra": [], "ctor": ctor},
                    "args": {"data": gen.rand_data(rng, [[dim, plen(f, n)]]), "axis": ["a1"], "to": to,
                             "boundary": b, "fill_value": fv}})
        cid += 1
    return out


def execute(case):
    """run the real call; returns the record (case + out)"""
    nm = model.Names(case["grid"].get("names"))
    rec = dict(case)
    try:
        grid, ds = model.make_grid(case["grid"])
        da = model.make_array(case["args"]["data"], nm, ds, name=nm("v1"))
        kw = model.call_kwargs(case["args"], nm)
        axis = [nm(a) for a in case["args"]["axis"]]
        if case["args"].get("axis_as_str") and len(axis) == 1:
            axis = axis[0]
        elif case["args"].get("axis_as_tuple"):
            axis = tuple(axis)
        for b in case.get("before", []):
            try:
                getattr(grid, case["op"])(da, axis, **dict(kw, **model.call_kwargs(b, nm)))
            except Exception:
                pass
        res = getattr(grid, case["op"])(da, axis, **kw)
        scale = 2 ** len(case["args"]["axis"]) if case["op"] == "interp" else 1
        rec["out"] = model.encode_result(res, scale, nm)
    except model.Inexact as ex:
        rec["out"] = {"k": "error", "cls": "Inexact", "msg": str(ex)}
    except Exception as ex:  # the property says valid calls return; the spec judges
        rec["out"] = model.encode_error(ex)
    return rec


def klass(rec):
    return (rec["op"], len(rec["args"]["axis"]), len(rec["args"]["data"]["dims"]), rec["args"]["to"]["k"],
            rec["args"]["boundary"]["k"], rec["grid"]["ctor"]["boundary"]["k"], rec["grid"]["ctor"]["periodic"]["k"])


def classify(rec, clauses):
    return "stencil-" + "+".join(sorted(set(clauses))) + f"-{rec['op']}"


def run(ctx):
    thorough = ctx.tier == "thorough"
    ctx.mc("MC_Stencil", "MC_Stencil_thorough.cfg" if thorough else "MC_Stencil_quick.cfg", coverage=True)
    ctx.mc("MC_Stencil", "MC_Stencil_specials.cfg")           # NaN and infinities among the data (IEEE arithmetic of Comb / Plus)
    rng = random.Random(ctx.seed * 7919 + 1)
    n = 40000 if thorough else 1500
    cases = [gen_case(rng, k + 1, nmax=6 if thorough else 5, allow_empty=True, specials=True) for k in range(n)]
    if thorough:
        cases += table_cases(len(cases) + 1)
    else:
        cases += table_cases(len(cases) + 1, nmin=2, nmax=3)
    recs = ctx.pmap(execute, cases)
    bad = ctx.validate("C01Trace", recs, jvms=16 if thorough else 8)
    for r in recs:
        ctx.nontrivial.add(klass(r))
        if r["id"] in bad:
            ctx.reject(classify(r, bad[r["id"]]), f"spec rejects record: {bad[r['id']]}", r)
    if thorough:
        from .. import suite

        suite.validate(ctx, "C01-")
    ctx.evaluations = len(recs)
    ctx.selftest_corrupt("C01Trace", recs, bad)
    for r in recs[:2]:
        ctx.sample({"op": r["op"], "axis": r["args"]["axis"], "to": r["args"]["to"], "data_dims": r["args"]["data"]["dims"],
                    "shape": r["args"]["data"]["shape"], "out_dims": r["out"].get("dims"), "out": r["out"].get("flat", r["out"])})
    ctx.assumptions += ["data are small integers (float64 exact); extension to all reals rests on data-obliviousness of the pipeline",
                        "TLC's evaluation of the specification and ndJsonDeserialize are trusted"]


def replay(ctx, rp):
    recs = [execute({k: v for k, v in c.items() if k != "out"}) for c in rp["cases"]]
    from ..core import setup_import_path
    bad = ctx.validate("C01Trace", recs)
    for r in recs:
        if r["id"] in bad:
            ctx.reject(classify(r, bad[r["id"]]), f"spec rejects record: {bad[r['id']]}", r)
