"""C10: the metric applied is the one registered for the array's position and axes; integrate / average /
derivative / metric_weighted are what the statement says."""
import itertools
import random

from .. import gen, model
from ..model import FACE, M, NONE, S, SHIFTS, plen
from . import c01

LEVEL = "model_checking"
RULE = ("GetMetric records: random registries (<= 5 non-uniform integer metric variables over subsets of 1-3 axes and "
        "positions, any list order) x array position x requested axes in any order, the answer must be one of the "
        "metrics the rule allows (TLC enumerates them), also after earlier lookups for arrays at other positions on "
        "the same Grid; Integrate/Average/Derivative/Weighted records: real operator "
        "calls with non-uniform metrics incl. NaN masks and distractor variables at other positions; non-trivial = "
        "distinct (event, registry shape, array position, axes) classes"
        ' Also: registries over three axes holding any subset of pairs and singles, metrics of different blocks on the same dimensions, all blocks off position, variables overwritten by ones stored in another dimension order (alone or in one call with a variable for a new position), earlier lookups on the same Grid.')


def rand_grid(rng, naxes=None, nmax=3):
    dimctr = [0]
    naxes = naxes or rng.choice([1, 2, 2, 3])
    axes = []
    for k in range(naxes):
        positions = ["center"] + rng.sample(FACE, rng.choice([1, 1, 2]))
        axes.append(gen.rand_axis(rng, k + 1, dimctr, nmax, positions=positions))
    return {"axes": axes, "extra": [], "ctor": {"periodic": {"k": "b", "v": False}, "boundary": NONE,
                                                 "fill_value": NONE, "default_shifts": NONE}}


def metric_entry(rng, grid, key, pos, name, lo=1, hi=4, foreign=0.0):
    axd = {a["name"]: a for a in grid["axes"]}
    dims = [dict(axd[a]["pos"])[p] for a, p in zip(key, pos)]
    shape = [plen(p, axd[a]["n"]) for a, p in zip(key, pos)]
    for a in axd:
        # a metric may also vary along axes it is not a metric of (dx(y, x))
        if a not in key and rng.random() < foreign:
            p, d = rng.choice(axd[a]["pos"])
            dims.append(d)
            shape.append(plen(p, axd[a]["n"]))
    order = list(range(len(dims)))
    rng.shuffle(order)
    dims = [dims[o] for o in order]
    shape = [shape[o] for o in order]
    size = 1
    for s in shape:
        size *= s
    return {"key": list(key), "var": name, "dims": dims, "shape": shape, "flat": [rng.randint(lo, hi) for _ in range(size)]}


def rand_registry(rng, grid, nmax=5):
    axn = [a["name"] for a in grid["axes"]]
    axd = {a["name"]: a for a in grid["axes"]}
    reg, slots = [], set()
    for k in range(rng.randint(1, nmax)):
        key = rng.sample(axn, rng.choice([1, 1, 1, 2, 2, 3][: 2 * len(axn)]))
        pos = [rng.choice([p for p, _ in axd[a]["pos"]]) for a in key]
        e = metric_entry(rng, grid, key, pos, f"m{k + 1}", foreign=0.4)
        slot = (frozenset(key), frozenset(e["dims"]))
        if slot in slots:
            continue
        slots.add(slot)
        reg.append(e)
    return reg


def partition_registry(rng, grid, adims):
    """three axes: a two-axis block and all three single-axis metrics registered (largest block first matters)"""
    axn = [a["name"] for a in grid["axes"]]
    axd = {a["name"]: a for a in grid["axes"]}
    apos = {a: next(p for p, d in axd[a]["pos"] if d in adims) for a in axn}
    reg = []
    pair = rng.sample(axn, 2)
    allother = rng.random() < 0.3
    n = 0
    for key in [pair] + [[a] for a in axn] + ([rng.sample(axn, 2)] if rng.random() < 0.3 else []):
        n += 1
        # now and then every block sits at another position than the array (all of them have to be interpolated)
        pos = [apos[a] if rng.random() < (0.8 if not allother else 0.15) else rng.choice([p for p, _ in axd[a]["pos"]]) for a in key]
        reg.append(metric_entry(rng, grid, key, pos, f"m{n}", foreign=0.35))
    uniq, seen = [], set()
    for e in reg:
        sl = (frozenset(e["key"]), frozenset(e["dims"]))
        if sl not in seen:
            seen.add(sl)
            uniq.append(e)
    rng.shuffle(uniq)
    return uniq


def subset_registry(rng, grid, adims):
    """three axes: any subset of the six proper axis sets (singles and pairs), so that partitions overlap, are
    only partly registered, or do not exist at all"""
    axn = [a["name"] for a in grid["axes"]]
    axd = {a["name"]: a for a in grid["axes"]}
    apos = {a: next(p for p, d in axd[a]["pos"] if d in adims) for a in axn}
    keys = [[a] for a in axn] + [list(c) for c in itertools.combinations(axn, 2)]
    reg, n = [], 0
    for key in keys:
        if rng.random() < 0.55:
            n += 1
            key = list(key)
            rng.shuffle(key)
            pos = [apos[a] if rng.random() < 0.85 else rng.choice([p for p, _ in axd[a]["pos"]]) for a in key]
            reg.append(metric_entry(rng, grid, key, pos, f"m{n}", foreign=0.35))
    rng.shuffle(reg)
    return reg


def twin_registry(rng, grid, adims, req):
    """nothing for the requested set itself; every single axis of it registered with a metric that lives on the SAME
    dimensions (dx(x, y) and dy(x, y) on one staggered point), at a position other than the array's for some axis"""
    axd = {a["name"]: a for a in grid["axes"]}
    apos = {a: next(p for p, d in axd[a]["pos"] if d in adims) for a in req}
    pos = {}
    for a in req:
        others = [p for p, _ in axd[a]["pos"] if p != apos[a] and ((p == "center") != (apos[a] == "center"))]
        pos[a] = rng.choice(others) if others and rng.random() < 0.7 else apos[a]
    dims = [dict(axd[a]["pos"])[pos[a]] for a in req]
    shape = [plen(pos[a], axd[a]["n"]) for a in req]
    size = 1
    for s_ in shape:
        size *= s_
    reg = []
    for k, a in enumerate(req):
        o = list(range(len(dims)))
        rng.shuffle(o)
        reg.append({"key": [a], "var": f"m{k + 1}", "dims": [dims[i] for i in o], "shape": [shape[i] for i in o],
                    "flat": [rng.randint(1, 4) for _ in range(size)]})
    rng.shuffle(reg)
    return reg


def gen_getmetric(rng, cid):
    while True:
        structured = rng.random() < 0.25
        grid = rand_grid(rng, naxes=3 if structured else None, nmax=2 if structured else 3)
        reg = rand_registry(rng, grid)
        axn = [a["name"] for a in grid["axes"]]
        axd = {a["name"]: a for a in grid["axes"]}
        req = rng.sample(axn, len(axn) if structured else rng.randint(1, len(axn)))
        used = {a for e in reg for a in axn if set(e["dims"]) & {d for _, d in axd[a]["pos"]}}
        have = list(req) + [a for a in axn if a not in req and (a in used or rng.random() < 0.4)]
        adims, ashape = [], []
        for a in have:
            p, d = rng.choice(axd[a]["pos"])
            adims.append(d)
            ashape.append(plen(p, axd[a]["n"]))
        o = list(range(len(adims)))
        rng.shuffle(o)
        adims, ashape = [adims[k] for k in o], [ashape[k] for k in o]
        size = 1
        for s in ashape:
            size *= s
        if size > 40:
            continue
        if structured:
            reg = partition_registry(rng, grid, adims) if rng.random() < 0.4 else subset_registry(rng, grid, adims)
            if not reg:
                continue
        if not structured and len(req) >= 2 and rng.random() < 0.12 and all(a in have for a in req):
            reg = twin_registry(rng, grid, adims, req)
        case = {"id": cid, "ev": "GetMetric", "grid": grid, "reg": reg, "adims": adims, "ashape": ashape, "axes": req}
        multi = [k_ for k_, e in enumerate(reg) if len(e["dims"]) >= 2]
        if reg and rng.random() < 0.2:
            # one variable of the registry replaces (overwrite=True) an earlier one at the same position (that was stored
            # with its dimensions in another order, if it has several)
            k_ = rng.choice(multi) if multi and rng.random() < 0.6 else rng.randrange(len(reg))
            e = reg[k_]
            o_ = list(range(len(e["dims"])))
            while len(o_) >= 2 and o_ == sorted(o_):
                rng.shuffle(o_)
            first = {"key": list(e["key"]), "var": e["var"] + "_first", "dims": [e["dims"][i] for i in o_],
                     "shape": [e["shape"][i] for i in o_], "flat": [rng.randint(5, 9) for _ in e["flat"]]}
            case["replaced"] = [k_, first]
            # ... and the same call registers, after it, a variable of the same axes at a position not registered before
            others = [j for j, e2 in enumerate(reg) if j != k_ and set(e2["key"]) == set(e["key"]) and set(e2["dims"]) != set(e["dims"])]
            if others and rng.random() < 0.6:
                case["held"] = rng.choice(others)
        if rng.random() < 0.35:
            # earlier lookups on the same Grid, for arrays at other positions of the same axes: what get_metric
            # answers depends on the registry and on the array, not on what was looked up before
            before = []
            for _ in range(rng.randint(1, 2)):
                bd, bs = [], []
                for a in have:
                    p_, d_ = rng.choice(axd[a]["pos"])
                    bd.append(d_)
                    bs.append(plen(p_, axd[a]["n"]))
                before.append({"adims": bd, "ashape": bs})
            case["before"] = before
        return case


def simple_registry(rng, grid, S, positions_list, distract=True, split=False):
    """registry offering exactly one candidate for axis set S at each of the position tuples in positions_list
    (tuples of (axis -> position)); optionally the set is split into single-axis keys; distractors at other keys"""
    reg, n = [], 0
    S = list(S)
    blocks = [[a] for a in S] if split and len(S) > 1 else [S]
    seen = set()
    for posmap in positions_list:
        for b in blocks:
            sig = (tuple(b), tuple(posmap[a] for a in b))
            if sig in seen:
                continue
            seen.add(sig)
            n += 1
            reg.append(metric_entry(rng, grid, b, [posmap[a] for a in b], f"m{n}"))
    rng.shuffle(reg)
    return reg


def gen_op(rng, cid, ev):
    while True:
        c = c01.gen_case(rng, cid, ops=["diff", "interp", "min", "max", "cumsum"], ev=ev, maxelems=40, nmax=3)
        grid, args = c["grid"], c["args"]
        axd = {a["name"]: a for a in grid["axes"]}
        dims = args["data"]["dims"]
        inpos = {a["name"]: next((p for p, d in a["pos"] if d in dims), None) for a in grid["axes"]}
        if ev in ("Integrate", "Average"):
            c.pop("op")
            axes = [a for a in axd if inpos[a]]
            axes = rng.sample(axes, rng.randint(1, len(axes)))
            args["axis"] = axes
            args.pop("to"), args.pop("boundary"), args.pop("fill_value")
            c["reg"] = simple_registry(rng, grid, axes, [inpos], split=rng.random() < 0.4)
            if ev == "Average":
                n = len(args["data"]["flat"])
                args["valid"] = [0 if rng.random() < 0.25 else 1 for _ in range(n)]
                if rng.random() < 0.2:
                    args["data"]["flat"] = [3] * n  # a constant field averages to the constant
            args["axis_as_str"] = len(axes) == 1 and rng.random() < 0.3
            return c
        if len(args["axis"]) != 1:
            continue
        a = args["axis"][0]
        frm = inpos[a]
        to = args["to"]
        tpos = (to["v"] if to["k"] == "s" else dict(to["v"])[a]) if to["k"] != "none" else c01.default_shift(grid["ctor"], axd[a], frm)
        outpos = dict(inpos)
        outpos[a] = tpos
        if ev == "Derivative":
            c["op"] = "diff"
            c["reg"] = simple_registry(rng, grid, [a], [outpos, inpos])
            args["axis_as_str"] = True  # derivative takes a single axis name
            return c
        # Weighted
        others = [x for x in axd if inpos[x] and x != a]
        Sx = [a] + (rng.sample(others, 1) if others and rng.random() < 0.4 else [])
        rng.shuffle(Sx)
        args["weight"] = Sx
        args["weight_spelling"] = rng.choice(["str", "list", "dict"]) if len(Sx) == 1 else rng.choice(["list", "dict"])
        c["reg"] = simple_registry(rng, grid, Sx, [inpos, outpos])
        return c


def register(case, ds, nm):
    metrics = {}
    for e in case["reg"]:
        ds[nm(e["var"])] = model.make_array(e, nm)
        metrics.setdefault(tuple(nm(a) for a in e["key"]), []).append(nm(e["var"]))
    return metrics


def execute(case):
    import warnings

    import numpy as np
    import xarray as xr

    nm = model.Names(case["grid"].get("names"))
    rec = dict(case)
    try:
        ds = model.build_dataset(case["grid"])
        rep = case.get("replaced")          # [index in reg, entry that was registered there first]
        if rep:
            # the registry of the record is what results from registering `first`, then overwriting it with the entry
            # now at that place of `reg` (same axes, same position, possibly stored in another dimension order)
            k_, first = rep
            held = case.get("held")
            regc = case["reg"][:k_] + [first] + case["reg"][k_ + 1:]
            metrics = register(dict(case, reg=[e for i, e in enumerate(regc) if i != held]), ds, nm)
            ds[nm(case["reg"][k_]["var"])] = model.make_array(case["reg"][k_], nm)
            if held is not None:
                ds[nm(case["reg"][held]["var"])] = model.make_array(case["reg"][held], nm)
        else:
            metrics = register(case, ds, nm)
        grid, ds = model.make_grid(case["grid"], ds=ds, metrics=metrics)
        if rep:
            e_ = case["reg"][rep[0]]
            if case.get("held") is not None:
                grid.set_metrics(tuple(nm(a) for a in e_["key"]), [nm(e_["var"]), nm(case["reg"][case["held"]]["var"])], overwrite=True)
            else:
                grid.set_metrics(tuple(nm(a) for a in e_["key"]), nm(e_["var"]), overwrite=True)
        ev = case["ev"]
        if ev == "GetMetric":
            for b in case.get("before", []):
                try:
                    with warnings.catch_warnings():
                        warnings.simplefilter("ignore")
                        grid.get_metric(xr.DataArray(np.zeros(b["ashape"]), dims=[nm(d) for d in b["adims"]]), [nm(a) for a in case["axes"]])
                except Exception:
                    pass
            arr = xr.DataArray(np.zeros(case["ashape"]), dims=[nm(d) for d in case["adims"]])
            with warnings.catch_warnings(record=True) as w:
                warnings.simplefilter("always")
                try:
                    m = grid.get_metric(arr, [nm(a) for a in case["axes"]])
                except KeyError as ex:
                    rec["out"] = model.encode_error(ex)
                    rec["warned"] = False
                    return rec
            rec["warned"] = any("being interpolated" in str(x.message) for x in w)
            raw_dims = [nm.inv().get(d, str(d)) for d in m.dims]
            if set(m.dims) <= set(arr.dims):
                m = m.transpose(*[d for d in arr.dims if d in m.dims])
            rec["out"] = model.encode_result(m, 1, nm, rational=True)
            rec["out"]["raw_dims"] = raw_dims          # the order the metric came back in (C12 compares it between runs)
            return rec
        a = case["args"]
        da = model.make_array(a["data"], nm, ds, name="v1")
        axis = [nm(x) for x in a["axis"]]
        if a.get("axis_as_str") and len(axis) == 1:
            axis = axis[0]
        if ev == "Integrate":
            rec["out"] = model.encode_result(grid.integrate(da, axis), 1, nm)
        elif ev == "Average":
            valid = np.array(a["valid"], dtype=bool).reshape(a["data"]["shape"])
            da = da.where(xr.DataArray(valid, dims=da.dims))
            res = grid.average(da, axis)
            rec["out"] = model.encode_result(res, 1, nm, rational=True)
            rec["out"]["flat"] = [[0, 0] if v == "nan" else v for v in rec["out"]["flat"]]
        elif ev == "Derivative":
            kw = model.call_kwargs(a, nm)
            res = grid.derivative(da, axis, **kw)
            rec["out"] = model.encode_result(res, 1, nm, rational=True)
        elif ev == "Weighted":
            kw = model.call_kwargs(a, nm)
            w = [nm(x) for x in a["weight"]]
            sp = a["weight_spelling"]
            mw = w[0] if sp == "str" else (w if sp == "list" else {nm(a["axis"][0]): tuple(w)})
            res = getattr(grid, case["op"])(da, axis, metric_weighted=mw, **kw)
            rec["out"] = model.encode_result(res, 1, nm, rational=True)
    except model.Inexact as ex:
        rec["out"] = {"k": "error", "cls": "Inexact", "msg": str(ex)}
    except Exception as ex:
        rec["out"] = model.encode_error(ex)
    rec.setdefault("warned", False)
    return rec


def klass(r):
    if r["ev"] == "GetMetric":
        return (r["ev"], tuple(sorted((tuple(sorted(e["key"])), tuple(sorted(e["dims"]))) for e in r["reg"])),
                tuple(sorted(r["adims"])), tuple(r["axes"]))
    return (r["ev"], r.get("op"), tuple(r["args"]["axis"]), tuple(r["args"]["data"]["dims"]), len(r["reg"]))


KNOWN_PRODUCT = "getmetric-product-branch-interpolates-block-that-has-a-variable-at-the-position"


def classify(rec, clauses):
    cl = "+".join(sorted(set(clauses)))
    if rec["ev"] == "GetMetric" and clauses == ["wrong-metric"]:
        # the one known deviation: a partition is needed, some block has no variable at the array's position and
        # another block has one (the code then interpolates the last variable of every block)
        S = set(rec["axes"])
        exact = [e for e in rec["reg"] if set(e["key"]) == S]
        if not exact:
            keys = {}
            for e in rec["reg"]:
                if set(e["key"]) < S:
                    keys.setdefault(frozenset(e["key"]), []).append(set(e["dims"]) <= set(rec["adims"]))
            has_here = [any(v) for v in keys.values()]
            if any(has_here) and not all(has_here):
                return KNOWN_PRODUCT
    return f"{rec['ev'].lower()}-{cl}"


def run(ctx):
    thorough = ctx.tier == "thorough"
    rng = random.Random(ctx.seed * 122949829 + 10)
    k = 12 if thorough else 2
    cases, cid = [], 0
    for ev, n in (("GetMetric", 900), ("Integrate", 250), ("Average", 250), ("Derivative", 250), ("Weighted", 350)):
        for _ in range(n * k):
            cid += 1
            cases.append(gen_getmetric(rng, cid) if ev == "GetMetric" else gen_op(rng, cid, ev))
    recs = ctx.pmap(execute, cases)
    bad = ctx.validate("C10Trace", recs, jvms=16 if thorough else 8, chunk=400)
    for r in recs:
        ctx.nontrivial.add(klass(r))
        if r["id"] in bad:
            ctx.reject(classify(r, bad[r["id"]]), f"spec rejects record: {bad[r['id']]}", r)
    ctx.evaluations = len(recs)

    def corrupt(r):
        o = r["out"]
        if o["k"] != "array" or not o["flat"]:
            return False
        v = o["flat"][-1]
        o["flat"][-1] = [v[0] + max(1, v[1]), max(1, v[1])] if isinstance(v, list) else v + 1
        return True

    ctx.selftest_corrupt("C10Trace", recs, bad, corrupt=corrupt)
    for ev in ("GetMetric", "Weighted"):
        r = next(x for x in recs if x["ev"] == ev)
        ctx.sample({k2: r[k2] for k2 in ("ev", "reg", "adims", "axes", "args", "out") if k2 in r})
    ctx.assumptions += ["integer metrics 1..4 and small integer data; averages/derivatives compared as exact rationals",
                        "the array carries every axis along which a registered metric varies",
                        "a warning that accompanies a non-interpolated answer is not constrained"]


def replay(ctx, rp):
    from ..core import setup_import_path

    setup_import_path()
    recs = [execute({k: v for k, v in c.items() if k not in ("out", "warned")}) for c in rp["cases"]]
    bad = ctx.validate("C10Trace", recs)
    for r in recs:
        if r["id"] in bad:
            ctx.reject(classify(r, bad[r["id"]]), f"spec rejects record: {bad[r['id']]}", r)
