"""C19: outputs are labelled with the grid's coordinates for the new position."""
import random

from .. import gen, model
from ..model import M, NONE, S, plen
from . import c01

LEVEL = "model_checking"
RULE = ("records = diff/interp/min/max/cumsum calls (1-2 axes, padded and unpadded shifts, optional metric weighting) on "
        "grid datasets with random coordinates: dimension coordinates for a random subset of dimensions (possibly none), "
        "0-D, 1-D and 2-D non-dimension coordinates on any mix of positions, each with its own values and attributes; "
        "keep_coords on/off; input carrying the dataset's coordinates, none, or foreign labels; non-trivial = distinct "
        "(coordinate layout, op, shift, keep_coords, input labelling)"
        ' Also: dask-backed inputs, legal but falsy names ("" and 0), Grids built from COMODO attributes (shift attribute as float, text or float32).')


def gen_case(rng, cid):
    c = c01.gen_case(rng, cid, ops=c01.OPS + ["cumsum"], ev="Coords", maxelems=60)
    g = c["grid"]
    alldims = [[d, plen(p, a["n"])] for a in g["axes"] for p, d in a["pos"]] + [list(e) for e in g["extra"]]
    dscoords, k = [], 0
    for d, L in alldims:
        if rng.random() < 0.7:
            dscoords.append({"name": d, "dims": [d]})
    for _ in range(rng.randint(0, 5)):
        k += 1
        nd = rng.choice([0, 1, 1, 2, 2])
        ds_ = [d for d, _ in rng.sample(alldims, min(nd, len(alldims)))]
        dscoords.append({"name": f"c{k}", "dims": ds_})
    if rng.random() < 0.12:
        # the Grid built from COMODO attributes on the dataset's own dimension coordinates (no explicit coords), with the
        # shift attribute as a file reader may deliver it: the labels still are the dataset's, attributes included
        for a in g["axes"]:
            for _, d in a["pos"]:
                if not any(x["name"] == d for x in dscoords):
                    dscoords.append({"name": d, "dims": [d]})
        c["via_comodo"] = rng.choice(["float", "str", "str", "np32"])
    c["dscoords"] = dscoords
    c["args"]["keep_coords"] = rng.random() < 0.5
    c["args"]["input_coords"] = rng.choice(["dataset", "dataset", "none", "foreign"])
    # the input's name: a word, none at all, or a legal but "falsy" one (the empty string, the integer 0 - written "0")
    c["args"]["name"] = rng.choice(["v1", "v1", "v1", "none", "", "0"])
    c["args"]["weighted"] = rng.random() < 0.2 and len(c["args"]["axis"]) == 1
    return c


def execute(case):
    import numpy as np
    import xarray as xr

    nm = model.Names(case["grid"].get("names"))
    rec = dict(case)
    try:
        g = case["grid"]
        sizes = {d: plen(p, a["n"]) for a in g["axes"] for p, d in a["pos"]}
        sizes.update({d: L for d, L in g["extra"]})
        ds = xr.Dataset()
        base = 100
        for c in case["dscoords"]:
            base += 100
            shape = [sizes[d] for d in c["dims"]]
            vals = (np.arange(int(np.prod(shape)) if shape else 1, dtype=float) + base).reshape(shape) if shape else np.float64(base)
            ds = ds.assign_coords({c["name"]: xr.DataArray(vals, dims=c["dims"], attrs={"tag": base, "units": f"u{base}"})})
        # dimensions without a coordinate still have to exist in the dataset
        for d, L in sizes.items():
            if d not in ds.dims:
                ds[f"_len_{d}"] = xr.DataArray(np.zeros(L), dims=[d])
        extra = {}
        a = case["args"]
        if a["weighted"]:
            ax = next(x for x in g["axes"] if x["name"] == a["axis"][0])
            for p, d in ax["pos"]:
                ds[f"m_{p}"] = xr.DataArray(np.ones(sizes[d]), dims=[d])
            extra["metrics"] = {(a["axis"][0],): [f"m_{p}" for p, _ in ax["pos"]]}
        if case.get("via_comodo"):
            for x in g["axes"]:
                for p, d in x["pos"]:
                    ds[d].attrs["axis"] = x["name"]
                    if p != "center":
                        v = -0.5 if p in ("left", "outer") else 0.5
                        ds[d].attrs["c_grid_axis_shift"] = {"float": v, "str": str(v), "np32": np.float32(v)}[case["via_comodo"]]
            extra["coords"] = None
            extra["autoparse_metadata"] = True
        grid, _ = model.make_grid(g, ds=ds, **extra)
        data = np.array(a["data"]["flat"], dtype=float).reshape(a["data"]["shape"])
        da = xr.DataArray(data, dims=a["data"]["dims"], name=None if a["name"] == "none" else (0 if a["name"] == "0" else a["name"]))
        if a["input_coords"] == "dataset":
            da = da.assign_coords({n: c for n, c in ds.coords.items() if set(c.dims) <= set(da.dims)})
        elif a["input_coords"] == "foreign":
            da = da.assign_coords({d: np.arange(sizes[d]) * -7.0 - 3 for d in da.dims})
        if case.get("id", 0) % 5 == 0:
            # dask-backed input, split along its first dimension: names and coordinates are the same as for in-memory
            # data (a split along a dimension whose shift involves inner / outer is refused, which the spec sees as a
            # call that raised - so only dimensions that are not operated on, or shifts among center/left/right)
            opd = {d for x in g["axes"] if x["name"] in a["axis"] for _, d in x["pos"]}
            io = any(p in ("inner", "outer") for x in g["axes"] if x["name"] in a["axis"] for p, _ in x["pos"])
            cand = [d for d in da.dims if (d not in opd or not io) and da.sizes[d] >= 2]
            if cand:
                da = da.chunk({cand[0]: 1})
        kw = model.call_kwargs(a, nm)
        kw["keep_coords"] = a["keep_coords"]
        if a["weighted"]:
            kw["metric_weighted"] = a["axis"][0]
        res = getattr(grid, case["op"])(da, list(a["axis"]), **kw)
        out = model.encode_result(res, 2 ** len(a["axis"]) if case["op"] == "interp" else 1, nm)
        info = []
        for n, c in res.coords.items():
            # N-D coordinates come back in the result's dimension order: compare by dimension name
            same = n in ds.coords and set(c.dims) == set(ds.coords[n].dims) and np.array_equal(
                np.asarray(c.transpose(*ds.coords[n].dims).values), np.asarray(ds.coords[n].values))
            attrs = n in ds.coords and dict(c.attrs) == dict(ds.coords[n].attrs)
            info.append([str(n), [str(d) for d in c.dims], bool(same), bool(attrs)])
        out["coordinfo"] = sorted(info)
        rec["out"] = out
    except Exception as ex:
        rec["out"] = model.encode_error(ex)
    return rec


def klass(r):
    return (tuple((c["name"] == (c["dims"] or [""])[0], len(c["dims"])) for c in r["dscoords"]), r["op"], str(r["args"]["to"]),
            r["args"]["keep_coords"], r["args"]["input_coords"], r["args"]["weighted"], len(r["args"]["axis"]))


KNOWN_ALIGN = "metric_weighted-aligns-on-input-labels"


def classify(rec, clauses):
    if rec["args"]["weighted"] and rec["args"]["input_coords"] == "foreign" and set(clauses) <= {
            "raised-on-valid-call", "values-depend-on-labels-or-wrong", "dims"}:
        return KNOWN_ALIGN
    return "coords-" + "+".join(sorted(set(clauses))) + ("-weighted" if rec["args"]["weighted"] else "")


def run(ctx):
    thorough = ctx.tier == "thorough"
    rng = random.Random(ctx.seed * 256203221 + 19)
    cases = [gen_case(rng, k + 1) for k in range(20000 if thorough else 2500)]
    recs = ctx.pmap(execute, cases)
    bad = ctx.validate("C19Trace", recs, jvms=16 if thorough else 8, chunk=500)
    for r in recs:
        ctx.nontrivial.add(klass(r))
        if r["id"] in bad:
            ctx.reject(classify(r, bad[r["id"]]), f"spec rejects record: {bad[r['id']]}", r)
    if thorough:
        from .. import suite

        suite.validate(ctx, "C19-")
    ctx.evaluations = len(recs)

    def corrupt(r):
        o = r["out"]
        if o["k"] != "array":
            return False
        if o["coordinfo"]:
            o["coordinfo"] = o["coordinfo"][1:]
            return True
        return False

    ctx.selftest_corrupt("C19Trace", recs, bad, corrupt=corrupt, kind=lambda r: r["args"]["keep_coords"])
    r = recs[0]
    ctx.sample({"dscoords": r["dscoords"], "op": r["op"], "axis": r["args"]["axis"], "to": r["args"]["to"],
                "keep_coords": r["args"]["keep_coords"], "input_coords": r["args"]["input_coords"], "out_dims": r["out"].get("dims"),
                "out_coords": r["out"].get("coordinfo")})
    ctx.assumptions += ["coordinates an input carries that are not coordinates of the grid dataset are outside the statement (not judged)"]


def replay(ctx, rp):
    from ..core import setup_import_path

    setup_import_path()
    recs = [execute({k: v for k, v in c.items() if k != "out"}) for c in rp["cases"]]
    bad = ctx.validate("C19Trace", recs)
    for r in recs:
        if r["id"] in bad:
            ctx.reject(classify(r, bad[r["id"]]), f"spec rejects record: {bad[r['id']]}", r)
