"""C11: grid ufuncs receive padded core dims last and return declared positions; option binding."""
import random

from .. import gen, model
from ..model import FACE, M, NONE, POS, S, plen

LEVEL = "model_checking"
RULE = ("records = calls through Grid.apply_as_grid_ufunc, functions decorated with as_grid_ufunc (string signature or "
        "Annotated type hints): 1-3 inputs, 1-2 outputs (possibly without core dims), 1-2 dummy axes per argument, every "
        "kind of dummy->real binding on 2-3 axis grids, widths 0..2 keyed by dummy names, rule/fill/widths/"
        "pad_before_func supplied at definition and/or call; a recording user function logs what it receives; plus "
        "inputs on wrong positions and arity mismatches; non-trivial = distinct (signature shape, binding, option "
        "placement) classes"
        ' Also: real axis names spelt like the dummy names (bound crosswise), explicit None given at call time, an earlier call of the same GridUFunc object with other options, one dummy on two real axes and other ill-posed bindings.')

DUMMIES = ["p", "q", "w"]


def gen_one_dummy_two_axes(rng, cid):
    """ill-posed: ONE dummy axis of the signature bound to TWO real axes (of equal length and layout, no padding, so
    that nothing but the binding rule stands between the request and an answer)"""
    n = rng.randint(2, 4)
    positions = ["center"] + rng.sample(FACE, rng.choice([1, 2]))
    axes = [{"name": f"a{k + 1}", "n": n, "pos": [[p, f"d{3 * k + j + 1}"] for j, p in enumerate(positions)]} for k in range(2)]
    grid = {"axes": axes, "extra": [], "ctor": gen.rand_ctor(rng, ["a1", "a2"])}
    p1, p2, po = (rng.choice(positions) for _ in range(3))
    within = rng.random() < 0.4
    if within:
        # within one argument: (p:p1, p:p2) with axis [(a1, a2)]
        ins, axis = [[["p", p1], ["p", p2]]], [["a1", "a2"]]
        inputs = [gen.rand_data(rng, [[dict(axes[0]["pos"])[p1], plen(p1, n)], [dict(axes[1]["pos"])[p2], plen(p2, n)]], -9, 9)]
    else:
        ins, axis = [[["p", p1]], [["p", p1]]], [["a1"], ["a2"]]
        inputs = [gen.rand_data(rng, [[dict(axes[k]["pos"])[p1], plen(p1, n)]], -9, 9) for k in range(2)]
    none4 = {"boundary": NONE, "fill_value": NONE, "boundary_width": NONE, "pad_before_func": NONE}
    return {"id": cid, "ev": "Ufunc", "grid": grid, "sig": {"ins": ins, "outs": [[["p", po if not within else p2]]]}, "axis": axis,
            "inputs": inputs, "def": dict(none4), "call": dict(none4), "how": rng.choice(["apply", "decorator", "hints"]), "edit": "arity"}


def gen_case(rng, cid):
    if rng.random() < 0.04:
        return gen_one_dummy_two_axes(rng, cid)
    while True:
        dimctr = [0]
        naxes = rng.choice([2, 2, 3])
        axes = [gen.rand_axis(rng, k + 1, dimctr, 3, positions=["center"] + rng.sample(FACE, rng.choice([1, 2]))) for k in range(naxes)]
        axn = [a["name"] for a in axes]
        axd = {a["name"]: a for a in axes}
        extras = [[f"d{dimctr[0] + 1 + k}", rng.randint(1, 2)] for k in range(rng.choice([0, 1, 1, 2]))]
        ctor = gen.rand_ctor(rng, axn)
        grid = {"axes": axes, "extra": extras, "ctor": ctor}
        nd = rng.randint(1, min(3, naxes))           # up to three dummy axes: a later argument may bring two new ones
        dummies = DUMMIES[:nd]
        reals = rng.sample(axn, nd)
        bind = dict(zip(dummies, reals))
        nin = rng.choice([1, 1, 2, 3])
        ins = []
        for _ in range(nin):
            ds = rng.sample(dummies, rng.randint(1, nd))
            ins.append([[d, rng.choice([p for p, _ in axd[bind[d]]["pos"]])] for d in ds])
        # binding is by order of first appearance: make sure every dummy appears
        if {d for a in ins for d, _ in a} != set(dummies):
            continue
        nout = rng.choice([1, 1, 2])
        outs = []
        for _ in range(nout):
            ds = rng.sample(dummies, rng.randint(0, nd))
            outs.append([[d, rng.choice([p for p, _ in axd[bind[d]]["pos"]])] for d in ds])
        axis = [[bind[d] for d, _ in a] for a in ins]
        common = [d for d in dummies if all(d in [x for x, _ in a] for a in ins)]
        ws = [[d, rng.randint(0, 2), rng.randint(0, 2)] for d in common if rng.random() < 0.8]
        inputs = []
        for a in ins:
            ds_ = [[dict(axd[bind[d]]["pos"])[p], plen(p, axd[bind[d]]["n"])] for d, p in a]
            full = [list(e) for e in extras]
            for x in ds_:
                full.insert(rng.randint(0, len(full)), x)
            inputs.append(gen.rand_data(rng, full, -9, 9))
        if any(len(i["flat"]) > 60 for i in inputs):
            continue
        how = rng.choice(["apply", "decorator", "hints"])

        def opt(values, scalar_only=False):
            k = rng.choice(["none", "s", "m"] if not scalar_only else ["none", "s"])
            if k == "none":
                return NONE
            if k == "s":
                return S(rng.choice(values))
            # a mapping may name only some of the axes (the others take the grid's own setting, never what a mapping
            # bound at definition time says once a mapping is given at call time)
            named = axn if rng.random() < 0.5 else rng.sample(axn, rng.randint(1, len(axn)))
            return M([[a, rng.choice(values)] for a in named])

        wopt = {"k": "m", "v": ws} if ws else NONE
        dfn = {"boundary": NONE, "fill_value": NONE, "boundary_width": NONE, "pad_before_func": NONE}
        call = {"boundary": opt(gen.RULES), "fill_value": opt([-3, 0, 2, 7]), "boundary_width": NONE, "pad_before_func": NONE}
        if how == "apply":
            call["boundary_width"] = wopt
        else:
            dfn["boundary_width"] = wopt
            dfn["boundary"] = opt(gen.RULES)
            dfn["fill_value"] = opt([-3, 0, 2, 7])
            for k_ in ("boundary", "fill_value"):
                if dfn[k_]["k"] != "none" and call[k_]["k"] == "none" and rng.random() < 0.15:
                    call[k_] = {"k": "xnone"}            # None given explicitly at call time: the grid's own setting applies
            if rng.random() < 0.15 and ws:
                # call-time widths override the definition-time ones
                sub = ws if rng.random() < 0.5 else rng.sample(ws, rng.randint(1, len(ws)))      # possibly naming fewer axes
                call["boundary_width"] = {"k": "m", "v": [[d, rng.randint(0, 2), rng.randint(0, 2)] for d, _, _ in sub]}
        # widths in force: those given at call time override the ones bound at definition time
        eff = call["boundary_width"]["v"] if call["boundary_width"]["k"] == "m" else (dfn["boundary_width"]["v"] if dfn["boundary_width"]["k"] == "m" else [])
        room = all(plen(p, axd[bind[d]]["n"]) - sum(lo + hi for dd, lo, hi in eff if dd == d) >= 1 for o in outs for d, p in o)
        if rng.random() < 0.1 and room and all(all(d in [x for x, _ in o] for d, _, _ in eff) for o in outs):
            # padding after the function: every output must carry the axes the widths name
            (call if how == "apply" or rng.random() < 0.5 else dfn)["pad_before_func"] = S(False)
        if rng.random() < 0.2:
            # the grid's real axis names are spelt like the signature's dummy names, bound in any way (crosswise too)
            pool = rng.sample(DUMMIES, len(DUMMIES))
            grid["names"] = {a: pool[k] for k, a in enumerate(axn)}
        c = {"id": cid, "ev": "Ufunc", "grid": grid, "sig": {"ins": ins, "outs": outs}, "axis": axis, "inputs": inputs,
             "def": dfn, "call": call, "how": how, "edit": "none"}
        r = rng.random()
        if r < 0.08:
            # put one input on another position of one of its signature axes
            a = rng.randrange(nin)
            d, p = rng.choice(ins[a])
            others = [q for q, _ in axd[bind[d]]["pos"] if q != p]
            if others:
                q = rng.choice(others)
                old, new = dict(axd[bind[d]]["pos"])[p], dict(axd[bind[d]]["pos"])[q]
                inp = inputs[a]
                k = inp["dims"].index(old)
                inp["dims"][k] = new
                inp["shape"][k] = plen(q, axd[bind[d]]["n"])
                size = 1
                for s_ in inp["shape"]:
                    size *= s_
                inp["flat"] = [rng.randint(-9, 9) for _ in range(size)]
                c["edit"] = "wrong-position"
        elif r < 0.12 and nin >= 2:
            c["axis"] = axis[:-1]
            c["edit"] = "arity"
        elif r < 0.15:
            # one entry of `axis` names fewer / more axes than the signature gives that input
            a = rng.randrange(nin)
            c["axis"] = [list(x) for x in axis]
            if len(axis[a]) > 1 and rng.random() < 0.5:
                c["axis"][a] = axis[a][:-1]
            else:
                c["axis"][a] = axis[a] + [rng.choice(axn)]
            c["edit"] = "arity"
        elif r < 0.18 and nd == 2:
            # two dummy axes of the signature bound to one real axis
            c["axis"] = [[reals[0] for _ in x] for x in axis]
            c["edit"] = "arity"
        elif r < 0.21 and nin >= 2:
            # fewer arrays than the signature has inputs
            c["inputs"] = inputs[:-1]
            c["edit"] = "arity"
        elif r < 0.25:
            # the signature names a position the bound axis does not have
            a = rng.randrange(nin)
            k = rng.randrange(len(ins[a]))
            d, p = ins[a][k]
            absent = [q for q in POS if q not in [x for x, _ in axd[bind[d]]["pos"]]]
            if absent:
                ins[a][k] = [d, rng.choice(absent)]
                c["edit"] = "wrong-position"
        elif r < 0.29:
            # one input carries a second dimension of one of its signature axes (often with no width to pad, so that
            # nothing on the padding side looks at the array's position)
            a = rng.randrange(nin)
            d, p = rng.choice(ins[a])
            others = [[q, dd] for q, dd in axd[bind[d]]["pos"] if q != p and dd not in inputs[a]["dims"]]
            if others:
                q, dd = rng.choice(others)
                inp = inputs[a]
                inp["dims"].insert(rng.randrange(len(inp["dims"]) + 1), dd)
                inp["shape"].insert(inp["dims"].index(dd), plen(q, axd[bind[d]]["n"]))
                size = 1
                for s_ in inp["shape"]:
                    size *= s_
                if size <= 400:
                    inp["flat"] = [rng.randint(-9, 9) for _ in range(size)]
                    c["edit"] = "two-dims"
                    if rng.random() < 0.6:
                        c["call"]["boundary_width"] = NONE
                        c["def"]["boundary_width"] = NONE
                        c["call"]["pad_before_func"] = NONE
                        c["def"]["pad_before_func"] = NONE
                else:
                    return gen_case(rng, cid)
        return c


def execute(case):
    import numpy as np
    import xarray as xr
    from typing import Annotated, Tuple

    from xgcm.grid_ufunc import as_grid_ufunc

    nm = model.Names(case["grid"].get("names"))
    rec = dict(case)
    try:
        grid, ds = model.make_grid(case["grid"])
        axd = {a["name"]: a for a in case["grid"]["axes"]}
        sig = case["sig"]
        inputs = [model.make_array(i, nm, ds, name=f"v{k}") for k, i in enumerate(case["inputs"])]
        dummies = []
        for a in sig["ins"]:
            for d, _ in a:
                if d not in dummies:
                    dummies.append(d)
        reals = []
        for a in case["axis"]:
            for x in a:
                if x not in reals:
                    reals.append(x)
        bind = dict(zip(dummies, reals))
        dfn, call = case["def"], case["call"]

        def eff(name, dflt=None):
            if call[name]["k"] != "none":
                return call[name]
            if dfn[name]["k"] != "none":
                return dfn[name]
            return dflt

        w = eff("boundary_width")
        widths = {d: (lo, hi) for d, lo, hi in w["v"]} if w else {}
        padb = eff("pad_before_func")
        pad_before = True if padb is None else padb["v"]
        received, returned = [], []

        def out_lens(o):
            lens = []
            for d, p in sig["outs"][o]:
                L = plen(p, axd[bind[d]]["n"])
                if not pad_before:
                    lo, hi = widths.get(d, (0, 0))
                    L -= lo + hi
                lens.append(L)
            return lens

        def func(*arrs):
            received.extend({"shape": [int(s) for s in a.shape], "flat": [model.enc_int(v) for v in np.asarray(a, dtype=float).ravel()]} for a in arrs)
            nb = min(a.ndim - len(s_) for a, s_ in zip(arrs, sig["ins"]))
            bshape = list(np.broadcast_shapes(*[a.shape[: a.ndim - len(s_)] for a, s_ in zip(arrs, sig["ins"])]))
            outs = []
            for o in range(len(sig["outs"])):
                shape = bshape + out_lens(o)
                size = int(np.prod(shape)) if shape else 1
                arr = (np.arange(size, dtype=float) + 1000 * (o + 1)).reshape(shape)
                returned.append({"shape": [int(s) for s in arr.shape], "flat": [int(v) for v in arr.ravel()]})
                outs.append(arr)
            return outs[0] if len(outs) == 1 else tuple(outs)

        def text(args):
            return ",".join("(" + ",".join(f"{d}:{p}" for d, p in a) + ")" for a in args)

        sigtext = text(sig["ins"]) + "->" + text(sig["outs"])
        axis = [tuple(nm(x) for x in a) for a in case["axis"]]

        def kw_of(o, allow_widths):
            kw = {}
            for k in ("boundary", "fill_value"):
                if o[k]["k"] == "xnone":
                    kw[k] = None
                elif o[k]["k"] != "none":
                    kw[k] = model.to_py(o[k], nm)
            if allow_widths and o["boundary_width"]["k"] != "none":
                kw["boundary_width"] = {d: (lo, hi) for d, lo, hi in o["boundary_width"]["v"]}
            if o["pad_before_func"]["k"] != "none":
                kw["pad_before_func"] = o["pad_before_func"]["v"]
            return kw

        if case["how"] == "apply":
            res = grid.apply_as_grid_ufunc(func, *inputs, axis=axis, signature=sigtext, **kw_of(call, True))
        else:
            if case["how"] == "hints":
                def ann(a):
                    return Annotated[np.ndarray, ",".join(f"{d}:{p}" for d, p in a)]

                func.__annotations__ = {f"a{k}": ann(a) for k, a in enumerate(sig["ins"])}
                # functools-free positional naming: give the function matching parameter names
                params = ", ".join(f"a{k}" for k in range(len(sig["ins"])))
                ns = {"_f": func}
                exec(f"def g({params}):\n    return _f({params})\n", ns)
                g = ns["g"]
                g.__annotations__ = dict(func.__annotations__)
                outs_ann = [ann(a) for a in sig["outs"]]
                g.__annotations__["return"] = outs_ann[0] if len(outs_ann) == 1 else Tuple[tuple(outs_ann)]
                gu = as_grid_ufunc(**kw_of(dfn, True))(g)
            else:
                gu = as_grid_ufunc(signature=sigtext, **kw_of(dfn, True))(func)
            if case.get("id", 0) % 4 == 0 and case["edit"] == "none":
                # the same GridUFunc object called before with other call-time options: options given to one call
                # (or bound at definition) are not to be changed by another call
                try:
                    gu(grid, *inputs, axis=axis, **dict(kw_of(call, True), boundary="extend" if call["boundary"].get("v") != "extend" else "fill",
                                                       fill_value=5))
                except Exception:
                    pass
                received.clear()
                returned.clear()
            res = gu(grid, *inputs, axis=axis, **kw_of(call, True))
        results = list(res) if isinstance(res, (tuple, list)) else [res]
        rec["out"] = {"k": "results", "received": received, "returned": returned,
                      "results": [model.encode_result(r, 1, nm) for r in results]}
    except Exception as ex:
        rec["out"] = model.encode_error(ex)
    return rec


def klass(r):
    return (tuple(tuple((d, p) for d, p in a) for a in r["sig"]["ins"]), tuple(tuple((d, p) for d, p in a) for a in r["sig"]["outs"]),
            tuple(map(tuple, r["axis"])), r["how"], r["edit"], tuple((k, r["def"][k]["k"], r["call"][k]["k"]) for k in sorted(r["def"])))


KNOWN_FILL = "definition-time-fill_value-ignored"
KNOWN_WIDTH = "call-time-boundary_width-typeerror"


def classify(rec, clauses):
    cl = "+".join(sorted(set(clauses)))
    return f"ufunc-{cl}-{rec['how']}"


def run(ctx):
    thorough = ctx.tier == "thorough"
    rng = random.Random(ctx.seed * 217645177 + 11)
    cases = [gen_case(rng, k + 1) for k in range(20000 if thorough else 3000)]
    recs = ctx.pmap(execute, cases)
    bad = ctx.validate("C11Trace", recs, jvms=16 if thorough else 8, chunk=400)
    for r in recs:
        ctx.nontrivial.add(klass(r))
        if r["id"] in bad:
            ctx.reject(classify(r, bad[r["id"]]), f"spec rejects record: {bad[r['id']]}", r)
    ctx.evaluations = len(recs)
    ctx.extra["records_by_route"] = {h: sum(1 for r in recs if r["how"] == h) for h in ("apply", "decorator", "hints")}
    ctx.extra["edited_records"] = {e: sum(1 for r in recs if r["edit"] == e) for e in ("wrong-position", "arity", "two-dims")}

    def corrupt(r):
        o = r["out"]
        if o["k"] != "results" or not o["received"] or not o["received"][0]["flat"]:
            return False
        o["received"][0]["flat"][0] += 1
        return True

    ctx.selftest_corrupt("C11Trace", recs, bad, corrupt=corrupt, kind=lambda r: r["how"])
    r = next(x for x in recs if x["out"]["k"] == "results")
    ctx.sample({"sig": r["sig"], "axis": r["axis"], "def": r["def"], "call": r["call"], "how": r["how"],
                "input_dims": [i["dims"] for i in r["inputs"]], "received_shapes": [x["shape"] for x in r["out"]["received"]],
                "result_dims": [x["dims"] for x in r["out"]["results"]]})
    ctx.assumptions += ["inputs carry their signature axes plus shared non-grid dimensions only; dask options are C06's subject"]


def replay(ctx, rp):
    from ..core import setup_import_path

    setup_import_path()
    recs = [execute({k: v for k, v in c.items() if k != "out"}) for c in rp["cases"]]
    bad = ctx.validate("C11Trace", recs)
    for r in recs:
        if r["id"] in bad:
            ctx.reject(classify(r, bad[r["id"]]), f"spec rejects record: {bad[r['id']]}", r)
