"""C14: metadata autoparsing (COMODO, SGRID) recovers exactly the topology the conventions prescribe."""
import itertools
import random

from .. import gen, model
from ..model import FACE, NONE, S, plen

LEVEL = "model_checking"
RULE = ("records = Grid(ds) without explicit coords for datasets annotated per COMODO (1-3 axes, every position subset "
        "containing center, n 1..4, both shift signs on inner/outer, arbitrary dimension names and order) or per SGRID "
        "(1-D, 2-D, 2-D+vertical, 3-D, the four padding words, with/without a space after ':'), datasets carrying both "
        "annotations, user coords together with parsable metadata; each parsed grid also runs one operator whose result "
        "is validated against the geometric definition; non-trivial = distinct dataset descriptions"
        ' Also: per-colon spacing, entries in any order, the topology variable as a coordinate, non-dimension coordinates carrying COMODO attributes, the shift attribute as float / numpy scalar / text.')

PAD = {"left": "high", "right": "low", "inner": "both", "outer": "none"}


def comodo_desc(rng, naxes=None, names=None):
    naxes = naxes or rng.choice([1, 2, 2, 3])
    names = names or rng.sample(["X", "Y", "Z", "T", "lon"], naxes)
    dims, k = [], 0
    for a in names:
        pos = ["center"] + rng.sample(FACE, rng.randint(0, 4))
        n = rng.randint(2 if "inner" in pos else 1, 4)
        for p in pos:
            k += 1
            shift = "none" if p == "center" else "neg" if p == "left" else "pos" if p == "right" else rng.choice(["neg", "pos"])
            dims.append({"dim": f"d{k}", "axis": a, "len": plen(p, n), "shift": shift})
    rng.shuffle(dims)
    return dims


def sgrid_desc(rng):
    kind = rng.choice(["1d", "2d", "2dv", "3d"])
    axes_n = {"1d": ["X"], "2d": ["X", "Y"], "2dv": ["X", "Y", "Z"], "3d": ["X", "Y", "Z"]}[kind]
    axes, k = [], 0
    for a in axes_n:
        k += 1
        n = rng.randint(2, 4)
        p = rng.choice(FACE)
        axes.append({"axis": a, "cell": f"c{k}f", "node": f"g{k}n", "pad": PAD[p], "n": n})
    return kind, axes


def gen_case(rng, cid):
    r = rng.random()
    desc = {"sgrid_declared": False, "sgrid": [], "comodo": []}
    extra = {}
    if r < 0.55:
        desc["comodo"] = comodo_desc(rng)
    elif r < 0.9:
        kind, axes = sgrid_desc(rng)
        desc["sgrid_declared"] = True
        desc["sgrid"] = axes
        extra = {"kind": kind, "space": rng.random() < 0.5}
    else:
        # both annotations on the same dimensions, deliberately disagreeing: SGRID must win
        kind, axes = sgrid_desc(rng)
        desc["sgrid_declared"] = True
        desc["sgrid"] = axes
        extra = {"kind": kind, "space": rng.random() < 0.5, "also_comodo": True}
    extra["user_kind"] = rng.choice(["same", "disjoint", "subset"])
    extra["mixed_space"] = rng.random() < 0.3
    extra["entry_order"] = rng.random() < 0.4
    extra["topology_as_coord"] = rng.random() < 0.25
    extra["stray_axis_coords"] = rng.random() < 0.25
    return {"id": cid, "ev": "Autoparse", "desc": desc, "user_coords": rng.random() < 0.12, "extra": extra,
            "periodic": rng.random() < 0.5, "seed": rng.randrange(10 ** 6)}


def build(case):
    """dataset + the abstract grid the tables prescribe (python twin of the TLA+ tables, used only to run an operator)"""
    import numpy as np
    import xarray as xr

    rng = random.Random(case["seed"])
    desc = case["desc"]
    ds = xr.Dataset()
    axes = {}
    if not desc["sgrid_declared"]:
        order = list(desc["comodo"])
        for d in order:
            attrs = {"axis": d["axis"]}
            if d["shift"] != "none":
                v = -0.5 if d["shift"] == "neg" else 0.5
                # the attribute as a file reader delivers it: a Python float, a numpy scalar of either width, or text
                sp_ = rng.choice(["float", "float", "np64", "np32", "str"])
                attrs["c_grid_axis_shift"] = {"float": v, "np64": np.float64(v), "np32": np.float32(v), "str": str(v)}[sp_]
            ds[d["dim"]] = xr.DataArray(np.arange(d["len"]) * 1.0, dims=[d["dim"]], attrs=attrs)
        for a in {d["axis"] for d in order}:
            n = next(d["len"] for d in order if d["axis"] == a and d["shift"] == "none")
            pos = []
            for d in order:
                if d["axis"] == a:
                    if d["shift"] == "none":
                        p = "center"
                    elif d["len"] == n + 1:
                        p = "outer"
                    elif d["len"] == n - 1:
                        p = "inner"
                    else:
                        p = "left" if d["shift"] == "neg" else "right"
                    pos.append([p, d["dim"]])
            axes[a] = {"name": a, "n": n, "pos": pos}
    else:
        sp = " " if case["extra"].get("space") else ""
        kind = case["extra"]["kind"]
        sg = desc["sgrid"]
        for a in sg:
            pos = {"high": "left", "low": "right", "both": "inner", "none": "outer"}[a["pad"]]
            ds[a["cell"]] = xr.DataArray(np.arange(a["n"]) * 1.0, dims=[a["cell"]])
            ds[a["node"]] = xr.DataArray(np.arange(plen(pos, a["n"])) * 1.0, dims=[a["node"]])
            axes[a["axis"]] = {"name": a["axis"], "n": a["n"], "pos": [["center", a["cell"]], [pos, a["node"]]]}
            if case["extra"].get("also_comodo"):
                # COMODO attributes that would parse to something else (every dim its own axis name)
                ds[a["cell"]].attrs["axis"] = "Q" + a["axis"]
                ds[a["node"]].attrs["axis"] = "Q" + a["axis"]
                ds[a["node"]].attrs["c_grid_axis_shift"] = -0.5

        def entry(a):
            # the blank after each ':' is a matter of style, colon by colon
            s1 = sp if not case["extra"].get("mixed_space") else rng.choice(["", " "])
            s2 = sp if not case["extra"].get("mixed_space") else rng.choice(["", " "])
            return f"{a['cell']}:{s1}{a['node']} (padding:{s2}{a['pad']})"

        attrs = {"cf_role": "grid_topology", "topology_dimension": {"1d": 1, "2d": 2, "2dv": 2, "3d": 3}[kind]}
        horiz = sg if kind != "2dv" else sg[:2]
        attrs["node_dimensions"] = " ".join(a["node"] for a in horiz)
        key = "volume_dimensions" if kind == "3d" else "face_dimensions"
        ents = [entry(a) for a in horiz]
        if case["extra"].get("entry_order"):
            rng.shuffle(ents)          # the entries name their node dimension themselves: their order is free
        attrs[key] = " ".join(ents)
        if kind == "2dv":
            attrs["vertical_dimensions"] = entry(sg[2])
        ds["grid_topology"] = xr.DataArray(0, attrs=attrs)
        if case["extra"].get("topology_as_coord"):
            ds = ds.set_coords("grid_topology")          # the topology variable kept as a (scalar) coordinate
        ds.attrs["Conventions"] = rng.choice(["SGRID-0.3", "CF-1.6, SGRID-0.3"])
    if case["extra"].get("stray_axis_coords"):
        # coordinates that are not dimensions but carry COMODO attributes: a scalar left over from selecting one level
        # of a staggered dimension, a 2-D longitude tagged with an axis - neither is a dimension of the dataset
        first = next(iter(axes.values()))
        ds = ds.assign_coords(zsel=xr.DataArray(2.5, attrs={"axis": first["name"], "c_grid_axis_shift": -0.5}))
        d0 = first["pos"][0][1]
        ds = ds.assign_coords(lon2d=xr.DataArray(np.zeros((ds.sizes[d0], 2)), dims=[d0, "nv_"], attrs={"axis": first["name"]}))
    return ds, axes


def execute(case):
    import numpy as np
    import xarray as xr
    import xgcm

    rec = dict(case)
    recs = [rec]
    try:
        ds, axes = build(case)
        kw = {"periodic": case["periodic"]}
        if case["user_coords"]:
            full = {a: {p: d for p, d in ax["pos"]} for a, ax in axes.items()}
            uk = case["extra"].get("user_kind", "same")
            if uk == "disjoint":
                # coords for an axis the metadata says nothing about: still a conflict, never a silent merge
                ds["u1"] = xr.DataArray(np.arange(3.0), dims=["u1"])
                ds["u2"] = xr.DataArray(np.arange(3.0), dims=["u2"])
                kw["coords"] = {"W": {"center": "u1", "left": "u2"}}
            elif uk == "subset":
                a0 = sorted(full)[0]
                kw["coords"] = {a0: full[a0]}
            else:
                kw["coords"] = full
        grid = xgcm.Grid(ds, **kw)
        rec["out"] = {"k": "grid", "coords": sorted([a, p, d] for a, ax in grid.axes.items() for p, d in ax.coords.items()),
                      "axis_order": list(grid.axes)}
        if not case["user_coords"]:
            # one operator on the parsed grid, judged by C01's geometric definition on the prescribed mapping
            rng = random.Random(case["seed"] + 1)
            cands = [(a, f, t) for a, ax in axes.items() for f, _ in ax["pos"] for t, _ in ax["pos"]
                     if (f, t) in model.SHIFTS and min(plen(f, ax["n"]), plen(t, ax["n"])) >= 1]
            if cands:
                a, f, t = rng.choice(cands)
                ax = axes[a]
                dim = dict(ax["pos"])[f]
                data = gen.rand_data(rng, [[dim, plen(f, ax["n"])]])
                da = xr.DataArray(np.array(data["flat"], dtype=float), dims=[dim], name="v1")
                op = rng.choice(["diff", "interp", "min", "max"])
                res = getattr(grid, op)(da, a, to=t)
                ctor = {"periodic": {"k": "b", "v": bool(case["periodic"])}, "boundary": NONE, "fill_value": NONE, "default_shifts": NONE}
                recs.append({"id": case["id"] + 10 ** 6, "ev": "Stencil", "op": op,
                             "grid": {"axes": [axes[x] for x in sorted(axes)], "extra": [], "ctor": ctor},
                             "args": {"data": data, "axis": [a], "to": S(t), "boundary": NONE, "fill_value": NONE},
                             "out": model.encode_result(res, 2 if op == "interp" else 1)})
    except Exception as ex:
        rec["out"] = model.encode_error(ex)
    return recs


def classify(rec, clauses):
    conv = "sgrid" if rec.get("desc", {}).get("sgrid_declared") else "comodo"
    return f"{rec['ev'].lower()}-" + "+".join(sorted(set(clauses))) + (f"-{conv}" if rec["ev"] == "Autoparse" else "")


def run(ctx):
    thorough = ctx.tier == "thorough"
    ctx.mc("MC_Autoparse", "MC_Autoparse.cfg", workers=4)
    rng = random.Random(ctx.seed * 236887691 + 14)
    cases = [gen_case(rng, k + 1) for k in range(20000 if thorough else 2500)]
    out = ctx.pmap(execute, cases, chunksize=16)
    recs = [r for rs in out for r in rs]
    parse = [r for r in recs if r["ev"] == "Autoparse"]
    ops = [r for r in recs if r["ev"] == "Stencil"]
    bad = ctx.validate("C14Trace", parse, jvms=8, chunk=3000)
    bad.update(ctx.validate("C01Trace", ops, jvms=8, chunk=1500))
    for r in recs:
        if r["ev"] == "Autoparse":
            ctx.nontrivial.add(str(r["desc"]) + str(r["user_coords"]))
        if r["id"] in bad:
            ctx.reject(classify(r, bad[r["id"]]), f"spec rejects record: {bad[r['id']]}", r)
    ctx.evaluations = len(recs)
    ctx.extra["conventions"] = {"comodo": sum(1 for r in parse if not r["desc"]["sgrid_declared"]),
                                "sgrid": sum(1 for r in parse if r["desc"]["sgrid_declared"] and not r["extra"].get("also_comodo")),
                                "both": sum(1 for r in parse if r["extra"].get("also_comodo")),
                                "user_coords_conflict": sum(1 for r in parse if r["user_coords"])}

    def corrupt(r):
        if r["out"]["k"] == "grid" and not r["user_coords"] and len(r["out"]["coords"]) >= 2:
            c = r["out"]["coords"]
            c[0][2], c[1][2] = c[1][2], c[0][2]
            return True
        return False

    ctx.selftest_corrupt("C14Trace", parse, bad, corrupt=corrupt, kind=lambda r: r["desc"]["sgrid_declared"])
    for r in parse[:2]:
        ctx.sample({"desc": r["desc"], "extra": r["extra"], "out": r["out"]})
    ctx.assumptions += ["SGRID node / cell dimension names are chosen so that none is a substring of another (substring matching is C13's subject)"]


def replay(ctx, rp):
    from ..core import setup_import_path

    setup_import_path()
    recs = []
    for c in rp["cases"]:
        if c["ev"] == "Autoparse":
            recs += [r for r in execute({k: v for k, v in c.items() if k != "out"}) if r["ev"] == "Autoparse"]
    bad = ctx.validate("C14Trace", recs)
    for r in recs:
        if r["id"] in bad:
            ctx.reject(classify(r, bad[r["id"]]), f"spec rejects record: {bad[r['id']]}", r)
