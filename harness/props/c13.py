"""C13: axis, dimension and variable names are opaque labels.
Cases of the other properties' generators are executed twice: with the canonical names and under an adversarial
injective renaming; the renamed record (labels mapped back) must be accepted by the generating property's trace
specification and must equal the un-renamed record."""
import copy
import json
import random
import re

from .. import model
from . import c01, c02, c03, c04, c05, c08, c09, c10, c11, c14, c15

LEVEL = "model_checking"
RULE = ("each case of C01/C02/C03/C04/C05/C08/C09/C10/C11/C14/C15's generators is run with canonical names and under an "
        "injective renaming of every axis, dimension, variable and dummy name drawn from an adversarial pool (single "
        "letters incl. t e r c l n f, names containing or contained in position words, prefixes/substrings of each other, "
        "case variants, length up to 12, the library's own temporary names); the renamed record must be accepted by the "
        "same TLA+ trace specification and equal the un-renamed one; non-trivial = distinct (family, renaming) pairs")

POOL = ["t", "e", "r", "c", "l", "n", "f", "i", "o", "g", "h", "u", "T", "E", "Xcenter", "centerX", "left_x", "x_left", "inner1",
        "router", "cent", "cente", "Center", "LEFT", "rightmost", "x", "xx", "xxx", "x_c", "x_cc", "X", "Xc", "XC", "abcdefghijkl",
        "lon", "lonG", "lat", "depth", "remapped", "temp_unique", "temp_dim_target", "ydummy", "y", "dummy", "outer_", "a", "aa", "z9",
        # names of keyword arguments of the xarray / numpy / dask methods a dimension name could be splatted into
        "drop", "indexers", "missing_dims", "new_name_or_name_dict", "dim", "axis", "name", "data", "other", "keep_attrs",
        "kwargs", "self", "mode", "pad_width", "constant_values", "chunks", "coords", "dims", "variable", "skipna", "fill_value",
        "boundary", "to", "func", "da", "grid",
        # identifiers with letters outside ASCII (Python identifiers, matched by \w)
        "\u03be", "\u03b7_c", "\u00e9ta", "\u00dcbergang", "\u0434\u043e\u043b\u0433\u043e\u0442\u0430"]
# keyword names of DataArray.isel: xarray itself cannot take a dimension of such a name through squeeze()/isel(**...),
# so they are left out for the face-connected families (whose assembly squeezes strips), not a matter of xgcm
XARRAY_RESERVED = ("self", "drop", "indexers", "missing_dims")
TOKEN = re.compile(r"^(a|d|v|m)\d+$")


def tokens_of(obj, acc):
    if isinstance(obj, str):
        if TOKEN.match(obj):
            acc.add(obj)
    elif isinstance(obj, dict):
        for k, v in obj.items():
            tokens_of(k, acc)
            tokens_of(v, acc)
    elif isinstance(obj, (list, tuple)):
        for v in obj:
            tokens_of(v, acc)
    return acc


def renaming(rng, toks, avoid=()):
    names = [n for n in POOL if n not in avoid]
    pick = rng.sample(names, len(toks))
    return dict(zip(sorted(toks), pick))


def body(out):
    return {k: out[k] for k in ("dims", "shape", "flat", "name", "coords", "v", "W", "lin", "newdim", "received", "results", "returned") if k in out}


def c10_competing(rng, cid):
    """three requested axes and a registry with at least two two-axis blocks: several partitions compete, and which one
    wins may depend on nothing but the registry and the order of the request - not on how the axes are called"""
    for _ in range(300):
        c = c10.gen_getmetric(rng, cid)
        if len(c["axes"]) == 3 and sum(1 for e in c["reg"] if len(e["key"]) == 2) >= 2:
            return c
    return c


def run_pair(job):
    """job = (family, case, names) -> (renamed record, pair record)"""
    fam, case, names = job
    ex = FAMILIES[fam]["execute"]
    base = ex(copy.deepcopy(case))
    rcase = copy.deepcopy(case)
    if fam == "c11":
        # dummy names are labels too
        dm = names.pop("__dummies__")

        def ren(x):
            return dm.get(x, x)

        rcase["sig"] = {s: [[[ren(d), p] for d, p in a] for a in args] for s, args in rcase["sig"].items()}
        for part in ("def", "call"):
            bw = rcase[part]["boundary_width"]
            if bw["k"] == "m":
                bw["v"] = [[ren(d), lo, hi] for d, lo, hi in bw["v"]]
    if fam == "c08":
        rcase["names"] = names
    else:
        rcase["grid"]["names"] = names
    ren = ex(rcase)

    def unwrap(r):
        return r[0] if isinstance(r, list) else r

    b, r = unwrap(base), unwrap(ren)
    pair = {"ev": "Rename", "family": fam, "names": names, "base": {"k": "error" if b["out"]["k"] == "error" else "ok", "body": body(b["out"])},
            "renamed": {"k": "error" if r["out"]["k"] == "error" else "ok", "body": body(r["out"])},
            "renamed_error": r["out"].get("msg", "") if r["out"]["k"] == "error" else "", "case": case}
    rlist = ren if isinstance(ren, list) else [ren]
    return rlist, pair


def c08_case(rng, cid):
    jobs = c08.gen_jobs(rng, False)
    j = next(x for x in reversed(jobs) if x["via"] == "grid")
    j["ids"] = [cid * 10 + k for k in range(len(j["ids"]))]
    return j


FAMILIES = {
    "c01": {"spec": "C01Trace", "gen": lambda rng, cid: c01.gen_case(rng, cid), "execute": c01.execute},
    "c09": {"spec": "C09Trace", "gen": lambda rng, cid: rng.choice([lambda: c01.gen_case(rng, cid, ops=["cumsum"]), lambda: c09.gen_inverse(rng, cid),
                                                                   lambda: c09.gen_cumint(rng, cid)])(), "execute": c09.execute},
    "c02": {"spec": "C02Trace", "gen": lambda rng, cid: c02.gen_pad(rng, cid), "execute": c02.execute},
    "c10": {"spec": "C10Trace", "gen": lambda rng, cid: rng.choice([lambda: c10.gen_getmetric(rng, cid), lambda: c10_competing(rng, cid),
                                                                    lambda: c10.gen_op(rng, cid, rng.choice(["Integrate", "Average", "Derivative", "Weighted"]))])(),
            "execute": c10.execute},
    "c11": {"spec": "C11Trace", "gen": lambda rng, cid: c11.gen_case(rng, cid), "execute": c11.execute},
    "c05": {"spec": "C05Trace", "gen": lambda rng, cid: c05.gen_case(rng, cid), "execute": c05.execute},
    "c03": {"spec": "C03Trace", "gen": lambda rng, cid: c03.gen_case(rng, cid), "execute": c03.execute},
    "c04": {"spec": "C03Trace", "gen": lambda rng, cid: c04.gen_vec(rng, cid), "execute": c04.execute},
    "c08": {"spec": "C08Trace", "gen": c08_case, "execute": c08.execute},
}
C08_TOKENS = ["zc", "zl", "col", "phi", "theta", "lev", "Z"]


def gen_jobs(rng, per_family):
    jobs, cid = [], 0
    for fam, f in FAMILIES.items():
        # the families in which names take part in decisions (metric partitions, signatures, face tables) get more pairs
        for _ in range(per_family * (2 if fam in ("c10", "c11", "c05") else 1)):
            cid += 1
            case = f["gen"](rng, cid)
            if fam == "c08":
                names = dict(zip(C08_TOKENS, rng.sample([n for n in POOL], len(C08_TOKENS))))
            else:
                toks = tokens_of(case, set())
                names = renaming(rng, toks, avoid=XARRAY_RESERVED if fam in ("c03", "c04", "c05") else ())
                axtoks = sorted(t for t in toks if t.startswith("a"))
                intcase = fam == "c10" and case.get("ev") in ("Integrate", "Average") and len(case["args"]["axis"]) == 1
                if len(axtoks) >= 2 and rng.random() < (0.8 if intcase else 0.3):
                    # axis names contained in one another (a plain-string axis argument must still mean that one axis)
                    sub = rng.choice([("x", "xi"), ("dep", "depth"), ("t", "outer_t"), ("lon", "lonG"), ("a", "aa"), ("X", "XC")])
                    if not (set(sub) & (set(names.values()) - {names[t] for t in axtoks})):
                        pair = rng.sample(axtoks, 2)
                        if fam == "c10" and case.get("ev") in ("Integrate", "Average") and len(case["args"]["axis"]) == 1:
                            # the operated axis gets the longer name and is named by a plain string
                            op_ax = case["args"]["axis"][0]
                            others = [t for t in axtoks if t != op_ax]
                            pair = [rng.choice(others), op_ax]
                            case["args"]["axis_as_str"] = True
                        for t in axtoks:
                            if t not in pair and names[t] in sub:
                                names[t] = "ax_" + t
                        names[pair[0]], names[pair[1]] = sub
                if fam == "c11":
                    used = set(names.values())
                    dm = rng.sample([n for n in POOL if n not in used], 3)
                    if rng.random() < 0.4:
                        # the dummy names of the signature are spelt like the (renamed) real axes, in any assignment
                        real = [names[t] for t in sorted(toks) if t.startswith("a")]
                        rng.shuffle(real)
                        dm = (real + dm)[:3]
                    names["__dummies__"] = dict(zip(["p", "q", "w"], dm))
            jobs.append((fam, case, names))
    return jobs


KNOWN = {}


def classify(rec, clauses, names=None):
    cl = "+".join(sorted(set(clauses)))
    return f"rename-{rec.get('family', rec.get('ev', '')).lower()}-{cl}"


def run(ctx):
    thorough = ctx.tier == "thorough"
    rng = random.Random(ctx.seed * 314606869 + 13)
    jobs = gen_jobs(rng, 1500 if thorough else 110)
    out = ctx.pmap(run_pair, jobs, chunksize=4)
    pairs = []
    byspec = {}
    for k, ((fam, case, names), (rlist, pair)) in enumerate(zip(jobs, out)):
        pair["id"] = k + 1
        pairs.append(pair)
        for r in rlist:
            r["_pair"] = k + 1
            byspec.setdefault(FAMILIES[fam]["spec"], []).append(r)
    bad = ctx.validate("C13Trace", [{"id": p["id"], "base": p["base"], "renamed": p["renamed"]} for p in pairs], jvms=8, chunk=600)
    for p in pairs:
        ctx.nontrivial.add((p["family"], json.dumps(p["names"], sort_keys=True)))
        if p["id"] in bad:
            ctx.reject(classify(p, bad[p["id"]]), f"renamed run differs from the canonical run: {bad[p['id']]} {p['renamed_error'][:120]}", p)
    # the renamed records themselves, judged by the specification of the property they belong to. A renamed record
    # that equals the canonical one is rejected exactly when the canonical one is: that is the generating property's
    # business (reported there), so only the acceptance count is kept here as evidence.
    accepted = {}
    for spec, recs in byspec.items():
        for k, r in enumerate(recs):
            r["id"] = k + 1
        sb = ctx.validate(spec, [{kk: vv for kk, vv in r.items() if kk != "_pair"} for r in recs], jvms=8, chunk=400)
        accepted[spec] = [len(recs) - len(sb), len(recs)]
    ctx.extra["renamed_records_accepted_by_their_own_specification"] = accepted
    # signatures and metadata parsing with names from the pool: validated directly by their (name-agnostic) specifications
    extra_recs = {"C15Trace": [], "C14Trace": []}
    sig_names = [n for n in POOL if re.fullmatch(r"\w+", n)]
    k = 0
    for _ in range(4000 if thorough else 400):
        k += 1
        nm3 = rng.sample(sig_names, 3)
        ins, outs = c15.rand_struct(rng, names=nm3)
        extra_recs["C15Trace"].append({"id": k, "ev": "Parse", "text": list(c15.struct_text(ins, outs))})
        k += 1
        m = dict(zip(nm3, rng.sample(sig_names, 3)))
        ins2 = [[(m[n], p) for n, p in a] for a in ins]
        outs2 = [[(m[n], p) for n, p in a] for a in outs]
        extra_recs["C15Trace"].append({"id": k, "ev": "Equiv", "a": list(c15.struct_text(ins, outs)), "b": list(c15.struct_text(ins2, outs2)), "kind": "rename"})
    for op in ("diff", "interp", "min", "max", "cumsum"):
        for f, t in model.SHIFTS:
            for name in rng.sample(sig_names, 6 if not thorough else len(sig_names)):
                k += 1
                extra_recs["C15Trace"].append({"id": k, "ev": "Select", "op": op, "from": f, "to": t, "axis": list(name)})
    for _ in range(3000 if thorough else 300):
        k += 1
        c = c14.gen_case(rng, k)
        c["user_coords"] = False
        # rename every dimension (and COMODO axis) through the pool; SGRID cell / node names may contain one another
        dims = sorted(tokens_of(c["desc"], set()) | {x[f] for x in c["desc"]["sgrid"] for f in ("cell", "node")})
        # (the words of the SGRID attribute grammar itself are dimension names like any other)
        names = dict(zip(dims, rng.sample(POOL + ["padding", "low", "high", "both", "none", "face", "node"], len(dims))))
        if c["desc"]["sgrid"] and rng.random() < 0.5:
            a0 = c["desc"]["sgrid"][0]
            names[a0["node"]] = rng.choice(["xn", "x", "n1"])
            names[a0["cell"]] = names[a0["node"]] + rng.choice(["f", "_c", "x"])     # node name is a prefix of the cell name
        axn = sorted({d["axis"] for d in c["desc"]["comodo"]})
        amap = dict(zip(axn, rng.sample([n for n in POOL if n not in names.values()], len(axn))))
        if len(axn) >= 2 and rng.random() < 0.35:
            # two axes whose names differ only in the case of their letters
            lo_, up_ = rng.choice([("z", "Z"), ("lev", "Lev"), ("x", "X"), ("eta", "ETA"), ("t", "T")])
            if lo_ not in names.values() and up_ not in names.values():
                a_, b_ = rng.sample(axn, 2)
                amap[a_], amap[b_] = lo_, up_
                for other in axn:
                    if other not in (a_, b_) and amap[other] in (lo_, up_):
                        amap[other] = "axis_" + other
        for d in c["desc"]["comodo"]:
            d["dim"], d["axis"] = names[d["dim"]], amap[d["axis"]]
        for a in c["desc"]["sgrid"]:
            a["cell"], a["node"] = names[a["cell"]], names[a["node"]]
        if len(set(names.values())) == len(names):
            extra_recs["C14Trace"].append(c)
    out15 = ctx.pmap(c15.execute, extra_recs["C15Trace"], chunksize=128)
    out14 = [r for rs in ctx.pmap(c14.execute, extra_recs["C14Trace"], chunksize=16) for r in rs if r["ev"] == "Autoparse"]
    for spec, recs in (("C15Trace", out15), ("C14Trace", out14)):
        sb = ctx.validate(spec, recs, jvms=8, chunk=1500)
        for r in recs:
            if r["id"] in sb:
                shown = "".join(r.get("text", r.get("a", r.get("axis", [])))) if spec == "C15Trace" else str(r["desc"])[:160]
                ctx.reject(f"names-{spec[:3].lower()}-{r['ev'].lower()}-" + "+".join(sb[r["id"]]),
                           f"{spec} rejects a record whose names come from the adversarial pool: {sb[r['id']]} {shown}", r)
    ctx.extra["direct_records"] = {"C15Trace": len(out15), "C14Trace": len(out14)}
    ctx.evaluations = 2 * len(pairs) + len(out15) + len(out14)
    used = {}
    for p in pairs:
        for v in p["names"].values():
            if isinstance(v, str):
                used[v] = used.get(v, 0) + 1
    ctx.extra["pool_names_used"] = len(used)
    ctx.extra["pool_size"] = len(POOL)

    def corrupt(r):
        if r["renamed"]["k"] == "ok" and r["renamed"]["body"].get("flat"):
            v = r["renamed"]["body"]["flat"][0]
            r["renamed"]["body"]["flat"][0] = [v[0] + 1, v[1]] if isinstance(v, list) else v + 1
            return True
        return False

    ctx.selftest_corrupt("C13Trace", [{"id": p["id"], "ev": p["family"], "base": p["base"], "renamed": copy.deepcopy(p["renamed"])} for p in pairs],
                         bad, corrupt=corrupt)
    p = pairs[0]
    ctx.sample({"family": p["family"], "names": p["names"], "base_kind": p["base"]["k"], "renamed_kind": p["renamed"]["k"]})
    ctx.assumptions += ["renamings are injective and never use one of the five position words as a whole name"]


def replay(ctx, rp):
    from ..core import setup_import_path

    setup_import_path()
    pairs = []
    for k, c in enumerate(rp["cases"]):
        _, pair = run_pair((c["family"], c["case"], dict(c["names"])))
        pair["id"] = k + 1
        pairs.append(pair)
    bad = ctx.validate("C13Trace", [{"id": p["id"], "base": p["base"], "renamed": p["renamed"]} for p in pairs])
    for p in pairs:
        if p["id"] in bad:
            ctx.reject(classify(p, bad[p["id"]]), f"renamed run differs: {bad[p['id']]}", p)
