"""C16: the metric registry reflects exactly what was registered, in any batching.
The implementation's reachable registry graph is explored breadth-first (every call from every reached state,
histories of up to MaxCalls calls, first call also through the constructor); every transition is validated by
TLC against the registry state machine of spec/Metrics.tla."""
import itertools
import random

LEVEL = "model_checking"
RULE = ("transitions = (registry before, call, outcome, registry after, get_metric at every slot) of the real Grid, "
        "explored breadth-first: every call (1-3 variables at pairwise different positions, or two variables of one slot, overwrite on/off, 2 keys, "
        "2 candidate variables per slot; first call also via the constructor) from every registry state reachable in "
        "<= 3 (quick) / 4 (thorough) calls; non-trivial = distinct (state, call) pairs")

# pool: variable -> (key, slot, dims, constant value)
POOL = {
    "k1c1": ("K1", "K1c", ("d1",), 2.0), "k1c2": ("K1", "K1c", ("d1",), 3.0),
    "k1l1": ("K1", "K1l", ("d2",), 5.0), "k1l2": ("K1", "K1l", ("d2",), 7.0), "k1o1": ("K1", "K1o", ("d5",), 23.0),
    "k2c1": ("K2", "K2c", ("d1", "d3"), 11.0), "k2c2": ("K2", "K2c", ("d3", "d1"), 13.0),
    "k2l1": ("K2", "K2l", ("d2", "d3"), 17.0), "k2l2": ("K2", "K2l", ("d2", "d3"), 19.0),
}
KEYS = {"K1": ("a1",), "K2": ("a1", "a2")}
ILL_KEYS = {"KX": ("a1", "a9"), "KY": ("a9",)}                 # a9: an axis the grid lacks
ILL_CALLS = [{"k": "KX", "vs": ["k1c1"], "ow": ow, "ill": "axis"} for ow in (False, True)] + \
            [{"k": "KY", "vs": ["k1l1"], "ow": False, "ill": "axis"}] + \
            [{"k": k, "vs": ["nosuch"], "ow": ow, "ill": "variable"} for k in ("K1", "K2") for ow in (False, True)]
SLOT_DIMS = {"K1c": ("d1",), "K1l": ("d2",), "K1o": ("d5",), "K2c": ("d1", "d3"), "K2l": ("d2", "d3")}
N = 3


def calls():
    out = []
    for k in KEYS:
        vs = [v for v in POOL if POOL[v][0] == k]
        lists = [[v] for v in vs] + [[v, w] for v in vs for w in vs if POOL[v][1] != POOL[w][1]]
        # two variables of ONE slot in one call (or the same variable twice): one at a time, the second meets an occupied slot
        lists += [[v, w] for v in vs for w in vs if POOL[v][1] == POOL[w][1]]
        lists += [[u, v, w] for u in vs for v in vs for w in vs if len({POOL[u][1], POOL[v][1], POOL[w][1]}) == 3]
        for l in lists:
            for ow in (False, True):
                out.append({"k": k, "vs": l, "ow": ow})
    return out


def make_ds():
    import numpy as np
    import xarray as xr

    ds = xr.Dataset(coords={"d1": ("d1", np.arange(N) + 0.5), "d2": ("d2", np.arange(N) * 1.0),
                            "d3": ("d3", np.arange(N) + 0.5), "d4": ("d4", np.arange(N) * 1.0), "d5": ("d5", np.arange(N + 1) * 1.0)})
    for v, (k, slot, dims, val) in POOL.items():
        ds[v] = xr.DataArray(np.full([N + 1 if d == "d5" else N for d in dims], val), dims=dims)
    return ds


def project(grid):
    """the registry as the Grid holds it: [[key, [variable names in list order]], ...]. Read from the attribute the
    property anchors (Grid._metrics); if an implementation keeps it elsewhere the projection is derived from what
    get_metric answers at every slot instead (occupants only, which is what the property speaks about)."""
    inv = {frozenset(v): k for k, v in KEYS.items()}
    reg = getattr(grid, "_metrics", None)
    if isinstance(reg, dict):
        out = []
        for key, lst in reg.items():
            names = [str(getattr(m, "name", m)) for m in list(lst)[:16]]
            if len(lst) > 16:
                names.append(f"...and {len(lst) - 16} more")       # a registry that grew without bound is reported, not copied
            out.append([inv[frozenset(key)], names])
        return sorted(out)
    occupants = {}
    for key, slot, kind, var in answers(grid):
        if kind == "exact":
            occupants.setdefault(key, []).append(var)
    return sorted([k, sorted(v)] for k, v in occupants.items())


def answers(grid):
    """get_metric at every slot position: [key, slot, kind, variable]"""
    import warnings

    import numpy as np
    import xarray as xr

    gm = []
    vals = {POOL[v][3]: v for v in POOL}
    for slot, dims in SLOT_DIMS.items():
        key = slot[:2]
        arr = xr.DataArray(np.zeros([N + 1 if d == "d5" else N for d in dims]), dims=dims)
        try:
            with warnings.catch_warnings(record=True):
                warnings.simplefilter("always")
                m = grid.get_metric(arr, KEYS[key])
            u = np.unique(np.asarray(m.values))
            if len(u) == 1 and float(u[0]) in vals:
                var = vals[float(u[0])]
                kind = "exact" if set(m.dims) == set(POOL[var][2]) else "interp"
                gm.append([key, slot, kind, var])
            else:
                gm.append([key, slot, "product", "none"])
        except KeyError:
            gm.append([key, slot, "none", "none"])
        except NotImplementedError:
            # the only registered variables sit at a position from which no shift to this one is defined (left -> outer)
            gm.append([key, slot, "undefined-shift", "none"])
        except Exception as ex:
            gm.append([key, slot, "error:" + type(ex).__name__, "none"])
    return gm


def run_history(history, last_via_ctor_first=False):
    """execute a history (list of calls; history[0] may carry ctor=True) on a fresh Grid; returns the record of
    the LAST call"""
    import warnings

    import numpy as np
    import xarray as xr
    import xgcm

    ds = make_ds()
    coords = {"a1": {"center": "d1", "left": "d2", "outer": "d5"}, "a2": {"center": "d3", "left": "d4"}}
    grid = None
    rec = None
    for step, call in enumerate(history):
        pre = project(grid) if grid is not None else []
        out = {"k": "ok"}
        try:
            if step == 0 and call.get("ctor"):
                grid = xgcm.Grid(ds, coords=coords, periodic=False, autoparse_metadata=False,
                                 metrics={(KEYS | ILL_KEYS)[call["k"]]: list(call["vs"])})
            else:
                if grid is None:
                    grid = xgcm.Grid(ds, coords=coords, periodic=False, autoparse_metadata=False)
                key = (KEYS | ILL_KEYS)[call["k"]]
                vs = list(call["vs"])
                # spellings of the same call: axis set as a string / tuple / permuted tuple / list, one variable as a string
                sp = (step * 7 + len(history) * 3 + len(vs) + (1 if call["ow"] else 0)) % 4
                if call["k"] in SPELLINGS:
                    key = [SPELLINGS[call["k"]][0], SPELLINGS[call["k"]][1], list(key), key][sp]
                if len(vs) == 1 and sp % 2 == 1:
                    vs = vs[0]
                grid.set_metrics(key, vs, overwrite=call["ow"])
        except ValueError as ex:
            out = {"k": "refused", "msg": str(ex)[:120]}
        except Exception as ex:
            out = {"k": "error", "cls": type(ex).__name__, "msg": str(ex)[:120]}
        if grid is None:
            grid = xgcm.Grid(ds, coords=coords, periodic=False, autoparse_metadata=False)
        rec = {"call": {"k": call["k"], "vs": list(call["vs"]), "ow": bool(call["ow"]), "ctor": bool(call.get("ctor"))},
               "pre": pre, "post": project(grid), "out": out}
        if call.get("ill"):
            rec["call"]["ill"] = call["ill"]
    gm = answers(grid)
    rec["gm"] = gm
    return rec


SPELLINGS = {"K1": ["a1", ("a1",)], "K2": [("a1", "a2"), ("a2", "a1")]}


def run_ctor_batch(calls_):
    """Grid(ds, metrics={...}) with several entries; entries for the same axis set use different spellings of the key"""
    import xgcm

    ds = make_ds()
    coords = {"a1": {"center": "d1", "left": "d2", "outer": "d5"}, "a2": {"center": "d3", "left": "d4"}}
    metrics, used = {}, {}
    for c in calls_:
        k = used.get(c["k"], 0)
        used[c["k"]] = k + 1
        metrics[SPELLINGS[c["k"]][k]] = list(c["vs"])
    out, grid = {"k": "ok"}, None
    try:
        grid = xgcm.Grid(ds, coords=coords, periodic=False, autoparse_metadata=False, metrics=metrics)
    except ValueError as ex:
        out = {"k": "refused", "msg": str(ex)[:120]}
    except Exception as ex:
        out = {"k": "error", "cls": type(ex).__name__, "msg": str(ex)[:120]}
    rec = {"calls": [{"k": c["k"], "vs": list(c["vs"])} for c in calls_], "out": out,
           "post": project(grid) if grid is not None else [], "gm": answers(grid) if grid is not None else []}
    return rec


def _job(args):
    hist, call = args
    return run_history(hist + [call])


def state_key(proj):
    return tuple((k, tuple(vs)) for k, vs in proj)


KNOWN_FRESH_KEY = "fresh-key-list-naming-one-slot-twice-registers-both"


def _legacy_fresh_key(reg, call):
    """what the pinned set_metrics does with a list given for an axis set that has no entry yet: every variable is
    appended, occupied slot or not (the known finding); None when the call is not of that kind"""
    if reg.get(call["k"]) or len({POOL[v][1] for v in call["vs"]}) == len(call["vs"]):
        return None
    return dict(reg, **{call["k"]: list(call["vs"])})


def classify(rec, clauses):
    cl = "+".join(sorted(set(clauses)))
    try:
        if rec["out"]["k"] == "ok" and set(clauses) <= {"accepted-into-occupied-slot", "two-variables-in-one-slot"}:
            if rec["ev"] == "SetMetrics" and not rec["call"].get("ctor"):
                legacy = _legacy_fresh_key({k: vs for k, vs in rec["pre"]}, rec["call"])
                if legacy is not None and {k: vs for k, vs in rec["post"]} == {k: vs for k, vs in legacy.items() if vs}:
                    return KNOWN_FRESH_KEY
            if rec["ev"] == "CtorBatch":
                # the constructor registers entry after entry: the first entry of an axis set meets no entry yet
                reg, hit = {}, False
                for c in rec["calls"]:
                    legacy = _legacy_fresh_key(reg, c)
                    if legacy is not None:
                        reg, hit = legacy, True
                    else:
                        reg = _spec_step(reg, c)
                        if reg is None:
                            return f"setmetrics-{cl}"
                if hit and {k: vs for k, vs in rec["post"]} == {k: vs for k, vs in reg.items() if vs}:
                    return KNOWN_FRESH_KEY
    except Exception:
        pass
    return f"setmetrics-{cl}"


def _spec_step(reg, call, ow=False):
    """Metrics.tla's SetMetricsSpec for one call without overwrite, on {key: [variables]}; None when refused"""
    lst = list(reg.get(call["k"], []))
    for v in call["vs"]:
        if any(POOL[x][1] == POOL[v][1] for x in lst):
            return None
        lst.append(v)
    return dict(reg, **{call["k"]: lst})


def apalache_inductive(ctx):
    """thorough tier: the registry invariant as an inductive invariant (every pool of <= 8 variables, every registry
    satisfying the invariant), discharged symbolically by Apalache"""
    import os
    import shutil
    import subprocess
    import tempfile
    import time

    spec_dir = os.path.join(os.path.dirname(os.path.dirname(os.path.dirname(os.path.abspath(__file__)))), "spec", "apalache")
    res = {}
    for name, args in (("base", ["--init=Init", "--length=0"]), ("step", ["--init=IndInit", "--length=1"])):
        out = tempfile.mkdtemp(prefix="apalache_")
        t0 = time.time()
        try:
            p = subprocess.run(["apalache-mc", "check", "--cinit=CInit", "--inv=IndInv", f"--out-dir={out}"] + args + ["MetricsInd.tla"],
                               cwd=spec_dir, capture_output=True, text=True, timeout=900)
            ok = "EXITCODE: OK" in p.stdout
            bad = "violat" in p.stdout.lower() and not ok
            res[name] = {"result": "holds" if ok else ("violated" if bad else "error"), "wall_s": round(time.time() - t0, 1)}
            if bad:
                ctx.reject("spec-invariant:apalache-" + name, "Apalache refutes the inductive registry invariant", {"tail": p.stdout[-1500:]})
        except subprocess.TimeoutExpired:
            res[name] = {"result": "timeout (inconclusive)", "wall_s": round(time.time() - t0, 1)}
        finally:
            shutil.rmtree(out, ignore_errors=True)
    ctx.extra["apalache_inductive_invariant"] = res


def run(ctx):
    thorough = ctx.tier == "thorough"
    depth = 4 if thorough else 3
    if thorough:
        apalache_inductive(ctx)
    ctx.mc("MC_Metrics", "MC_Metrics_thorough.cfg" if thorough else "MC_Metrics.cfg", coverage=thorough)
    allcalls = calls()
    pool_list = [[v, POOL[v][0], POOL[v][1]] for v in sorted(POOL)]
    # breadth-first over the implementation's registry states
    truncated, stopped_at = False, None
    frontier = {(): []}  # state -> shortest history
    seen = {(): []}
    recs = []
    cid = 0
    for d in range(depth):
        jobs = []
        for st, hist in frontier.items():
            for c in allcalls:
                jobs.append((hist, dict(c)))
                # through the constructor (which has no overwrite option and, when refused, leaves no Grid to look at):
                # lists naming one slot twice go to the CtorBatch records below instead
                if d == 0 and len({POOL[v][1] for v in c["vs"]}) == len(c["vs"]):
                    jobs.append((hist, dict(c, ctor=True)))
            for c in ILL_CALLS:
                jobs.append((hist, dict(c)))
                if d == 0:
                    jobs.append((hist, dict(c, ctor=True)))
        # in portions, so that an implementation whose calls hang or fail is reported without finishing the level
        results = []
        for lo in range(0, len(jobs), 1600):
            part = ctx.pmap(_job, jobs[lo:lo + 1600], chunksize=25, limit=10.0)
            results += part
            if sum(1 for r in part if r["out"]["k"] == "error") > 10:
                jobs = jobs[:len(results)]
                break
        level = []
        for (hist, c), r in zip(jobs, results):
            cid += 1
            r.update({"id": cid, "ev": "SetMetricsIll" if c.get("ill") else "SetMetrics", "pool": pool_list, "history_len": len(hist) + 1,
                      "history": hist + [c]})
            recs.append(r)
            level.append(r)
        # a state reached through a transition the specification rejects is not a state of the model: it is reported
        # (below) and not explored from; a level that is mostly rejected ends the exploration
        bad_level = ctx.validate("C16Trace", level, jvms=8, chunk=2500) if level else {}
        new = {}
        for r in level:
            sk = state_key(r["post"])
            if sk not in seen and r["out"]["k"] != "error" and r["id"] not in bad_level:
                seen[sk] = r["history"]
                new[sk] = r["history"]
        frontier = new
        cap = 1500 if thorough else (10 if d == depth - 2 else 30)
        if len(frontier) > cap:
            # the next level is explored from a sample of the new states (always the case for the last quick level;
            # otherwise only when an implementation makes the registry grow without bound)
            keys = sorted(frontier)
            random.Random(ctx.seed + d).shuffle(keys)
            frontier = {k: frontier[k] for k in keys[:cap]}
            truncated = True
        if len(bad_level) * 4 > len(level):
            stopped_at = d + 1
            break
    # constructors with two or three `metrics=` entries (at most two spellings per axis set)
    rngc = random.Random(ctx.seed * 7919 + 16)
    noow = [c for c in allcalls if not c["ow"]]
    batches = []
    while len(batches) < (1500 if thorough else 160):
        b = [dict(rngc.choice(noow)) for _ in range(rngc.choice([2, 2, 3]))]
        if all(sum(1 for c in b if c["k"] == k) <= 2 for k in KEYS):
            batches.append(b)
    batches += [[dict(c)] for c in noow if len({POOL[v][1] for v in c["vs"]}) < len(c["vs"])]
    for r in ctx.pmap(run_ctor_batch, batches, chunksize=10, limit=10.0):
        cid += 1
        r.update({"id": cid, "ev": "CtorBatch", "pool": pool_list, "history_len": 0, "call": {"k": "-", "vs": [], "ow": False, "ctor": True},
                  "pre": []})
        recs.append(r)
    ctx.traces = 0   # the per-level validations above are repeated on the whole set below
    bad = ctx.validate("C16Trace", recs, jvms=16 if thorough else 8, chunk=2500)
    ctx.extra["exploration_stopped_after_rejected_transition_at_depth"] = stopped_at
    ctx.extra["frontier_sampled"] = truncated
    for r in recs:
        ctx.nontrivial.add((state_key(r["pre"]), r["call"]["k"], tuple(r["call"]["vs"]), r["call"]["ow"], r["call"]["ctor"]))
        if r["id"] in bad:
            ctx.reject(classify(r, bad[r["id"]]), f"spec rejects transition: {bad[r['id']]}", r)
    ctx.evaluations = len(recs)
    ctx.extra["implementation_states_reached"] = len(seen)
    ctx.extra["max_history_length"] = depth

    def corrupt(r):
        if r["post"] and r["post"][0][1]:
            v = r["post"][0][1][0]
            other = v[:-1] + ("2" if v.endswith("1") else "1")
            if other not in POOL:
                # no second candidate for this slot: claim a variable of the same key that the registry does not hold
                held = {x for _, vs in r["post"] for x in vs}
                cands = [x for x in sorted(POOL) if POOL[x][0] == POOL[v][0] and x not in held]
                if not cands:
                    return False
                other = cands[0]
            r["post"][0][1][0] = other
            r["gm"] = []
            return True
        return False

    ctx.selftest_corrupt("C16Trace", recs, bad, corrupt=corrupt, kind=lambda r: r["out"]["k"])
    for r in recs[:1] + recs[-1:]:
        ctx.sample({k: r[k] for k in ("pre", "call", "out", "post", "gm")})
    ctx.assumptions += ["metric variables are constant arrays with pairwise distinct values, so get_metric's answer identifies the variable"]


def replay(ctx, rp):
    from ..core import setup_import_path

    setup_import_path()
    recs = []
    for c in rp["cases"]:
        r = run_history(c["history"])
        r.update({"id": c["id"], "ev": "SetMetrics", "pool": c["pool"], "history": c["history"]})
        recs.append(r)
    bad = ctx.validate("C16Trace", recs)
    for r in recs:
        if r["id"] in bad:
            ctx.reject(classify(r, bad[r["id"]]), f"spec rejects transition: {bad[r['id']]}", r)
