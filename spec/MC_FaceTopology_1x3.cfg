SPECIFICATION Spec
CONSTANTS Kx = 1
          Ky = 3
          N = 2
          W = 2
INVARIANT Recip
INVARIANT HaloOK
INVARIANT Symmetric
INVARIANT VectorRuleOK
CHECK_DEADLOCK FALSE
