------------------------------ MODULE X01Trace ------------------------------
(* Beyond the listed properties (not registered in MANIFEST.json): Grid.interp_like. *)
(* interp_like(array, like) interpolates `array` along exactly those axes of the     *)
(* grid on which both arrays stand at different positions, to the position of        *)
(* `like`, one axis after the other in the order of the grid's axes, under the rule  *)
(* and fill value in force; on every other axis (same position, or an axis one of    *)
(* the two lacks) nothing happens.  The answer is the geometric interp of Calls.tla. *)
EXTENDS Calls, X01Defs, Json, IOUtils, TLC

Tr == ndJsonDeserialize(IOEnv.TRACE_FILE)
VARIABLE i

\* the same request spelt as a Grid.interp call
AsInterp(r) ==
  LET st == LikeSteps(r.grid, r.args.data.dims, r.args.like_dims, 1) IN
  [grid |-> r.grid, op |-> "interp",
   args |-> [data |-> r.args.data, axis |-> [k \in DOMAIN st |-> st[k][1]], to |-> [k |-> "m", v |-> st],
             boundary |-> r.args.boundary, fill_value |-> r.args.fill_value]]

\* every step is one of the eight shifts an axis can make (the drivers generate nothing else)
StepsValid(r) == LET st == LikeSteps(r.grid, r.args.data.dims, r.args.like_dims, 1) IN
  \A k \in DOMAIN st : LET ax == AxisOf(r.grid, st[k][1]) IN ValidShift(ThePos(ax, r.args.data.dims), st[k][2])

VInterpLike(r) ==
  IF ~StepsValid(r) THEN "driver-shift-not-defined"
  ELSE IF r.out.k # "array" THEN "raised-on-valid-call"
  ELSE IF r.nsteps # Len(LikeSteps(r.grid, r.args.data.dims, r.args.like_dims, 1)) THEN "driver-step-count"
  ELSE LET e == Expected(AsInterp(r)) IN
       IF r.out.dims # e.dims THEN "dims"
       ELSE IF r.out.shape # e.arr.shape THEN "shape"
       ELSE IF r.out.flat # e.arr.flat THEN "values"
       ELSE "ok"

Verdict(r) == IF r.ev = "InterpLike" THEN VInterpLike(r) ELSE "unknown-event"
Init == i = 1
Next == /\ i <= Len(Tr)
        /\ LET v == Verdict(Tr[i]) IN IF v = "ok" THEN TRUE ELSE PrintT(<<"V", Tr[i].id, v>>)
        /\ i' = i + 1
Spec == Init /\ [][Next]_i
=============================================================================
