------------------------------ MODULE C13Trace ------------------------------
(* C13.  No module of the specification ever looks inside a name, so a record   *)
(* produced under a renaming, once its labels are mapped back, must be the very *)
(* record of the un-renamed run: same accept/reject outcome, same dimensions,   *)
(* same numbers.  (The renamed records are, in addition, validated by the trace *)
(* specification of the property they were generated for.)                       *)
EXTENDS Integers, Sequences, Json, IOUtils, TLC
Tr == ndJsonDeserialize(IOEnv.TRACE_FILE)
VARIABLE i
Verdict(r) ==
  IF r.base.k # r.renamed.k THEN (IF r.renamed.k = "error" THEN "rejected-only-under-renaming" ELSE "accepted-only-under-renaming")
  ELSE IF r.base.k = "error" THEN "ok"
  ELSE IF r.base.body # r.renamed.body THEN "result-differs-under-renaming"
  ELSE "ok"
Init == i = 1
Next == /\ i <= Len(Tr)
        /\ LET v == Verdict(Tr[i]) IN IF v = "ok" THEN TRUE ELSE PrintT(<<"V", Tr[i].id, v>>)
        /\ i' = i + 1
Spec == Init /\ [][Next]_i
=============================================================================
