-------------------------------- MODULE Xgcm --------------------------------
(* The session: a user holds a Grid and a store of argument objects (arrays,   *)
(* dictionaries, the dataset) and issues calls.  Every call is a FUNCTION of    *)
(* the grid's settings and of its arguments; the only call that changes         *)
(* anything is set_metrics, and it changes the metric registry only.  C18 is    *)
(* the frame condition of every other action; C12 / C13 say the function does   *)
(* not depend on the hash seed, on table ordering or on the names used.         *)
(*                                                                              *)
(* Abstractly: Calls is a finite catalogue; Answer[c] is the answer call c has  *)
(* on fresh objects; Digest0 the initial content of the store.  The component   *)
(* modules (Stencil, Boundary, FaceTopology, Metrics, MetricSelect, GridUfunc,  *)
(* Conservative, LinearInterp, Signature, Autoparse, Coords, Errors) define     *)
(* what Answer is for each kind of call; here only the session structure is     *)
(* stated, and it is what the session traces are validated against.             *)
EXTENDS Naturals, Sequences, FiniteSets
CONSTANTS CallIds, Objects, MaxLen

VARIABLES history, store, settings, registry, last
vars == <<history, store, settings, registry, last>>

Digest0 == [o \in Objects |-> 0]
Answer(c, reg) == <<c, reg>>                  \* a call's answer depends on the call and on the registry it finds
Init == history = <<>> /\ store = Digest0 /\ settings = 0 /\ registry = 0 /\ last = <<>>
\* an ordinary call: answers, touches nothing
Call(c) == /\ Len(history) < MaxLen /\ history' = Append(history, c)
           /\ last' = Answer(c, registry) /\ UNCHANGED <<store, settings, registry>>
\* set_metrics: changes the registry (how is Metrics.tla's business), nothing else
SetMetrics(k) == /\ Len(history) < MaxLen /\ history' = Append(history, "set_metrics")
                 /\ registry' = k /\ last' = <<>> /\ UNCHANGED <<store, settings>>
Next == (\E c \in CallIds : Call(c)) \/ (\E k \in 0..1 : SetMetrics(k))
Spec == Init /\ [][Next]_vars

\* C18 as an action property: no step modifies an argument object or the grid's own settings
Pure == [][store' = store /\ settings' = settings]_vars
\* and as a state property: the answer to the last call is the answer it has on fresh objects with this registry
HistoryFree == last # <<>> => last = Answer(last[1], registry)
=============================================================================
