------------------------------ MODULE C09Trace ------------------------------
(* Trace validation for C09: cumsum as a geometric running sum, its inverse     *)
(* relation with diff, order independence over several axes, cumint/integrate.  *)
EXTENDS Calls, Json, IOUtils, TLC

Tr == ndJsonDeserialize(IOEnv.TRACE_FILE)
VARIABLE i

Arr0(x) == [shape |-> x.shape, flat |-> x.flat]

VCumsum(r) ==
  IF r.out.k # "array" THEN "raised-on-valid-call"
  ELSE LET e == Expected(r) IN
       IF r.out.dims # e.dims THEN "dims"
       ELSE IF r.out.shape # e.arr.shape THEN "shape"
       ELSE IF r.out.flat # e.arr.flat THEN "values" ELSE "ok"

\* diff(cumsum(x, to outer, fill 0), to center) = x, observed on the real code
VInverse(r) ==
  IF r.out.k # "array" THEN "raised-on-valid-call"
  ELSE IF r.out.dims # r.args.data.dims THEN "inverse-dims"
  ELSE IF r.out.flat # r.args.data.flat \/ r.out.shape # r.args.data.shape THEN "inverse-values" ELSE "ok"

\* same axes in two orders: each equals the geometric result of its own order, and they agree
\* whenever no non-zero fill value is in force
NonzeroFill(r) == \E k \in DOMAIN r.args.axis :
   LET ax == r.args.axis[k] IN
   RuleInForce(r.grid.ctor, r.args.boundary, ax) = "fill" /\ FillInForce(r.grid.ctor, r.args.fill_value, ax) # 0
VOrder(r) ==
  IF r.out.k # "array" \/ r.out2.k # "array" THEN "raised-on-valid-call"
  ELSE LET e1 == Expected(r)
           e2 == Expected([r EXCEPT !.args.axis = r.axis2]) IN
       IF r.out.flat # e1.arr.flat \/ r.out.dims # e1.dims THEN "values"
       ELSE IF r.out2.flat # e2.arr.flat \/ r.out2.dims # e2.dims THEN "values-second-order"
       ELSE IF ~NonzeroFill(r) /\ (r.out.flat # r.out2.flat \/ r.out.dims # r.out2.dims) THEN "order-dependent"
       ELSE "ok"

\* cumint = cumsum(data * metric); integrate = sum(data * metric); last value on outer/right targets
AllLast(shape) == [d \in DOMAIN shape |-> shape[d] - 1]
VCumint(r) ==
  IF r.out.k # "array" \/ r.integ.k # "array" THEN "raised-on-valid-call"
  ELSE LET a == Arr0(r.args.data)
           w == MulBroadcast(a, r.args.data.dims, Arr0(r.metric), r.metric.dims)
           rw == [r EXCEPT !.args.data.flat = w.flat, !.op = "cumsum"]
           e == Expected(rw)
           sd == StepsFrom(r, r.args.data.dims, 1, <<>>)[1]
           axdims == {r.args.data.dims[sd[k].d] : k \in DOMAIN sd}
           s == SumOver(w, r.args.data.dims, axdims)
           tos == {sd[k].to : k \in DOMAIN sd}
       IN IF r.out.dims # e.dims \/ r.out.shape # e.arr.shape THEN "cumint-dims"
          ELSE IF r.out.flat # e.arr.flat THEN "cumint-values"
          ELSE IF r.integ.dims # s.dims \/ r.integ.flat # s.arr.flat THEN "integrate-values"
          ELSE IF tos \subseteq {"outer", "right"} /\ Len(r.integ.dims) = 0
                  /\ r.out.flat[Len(r.out.flat)] # r.integ.flat[1] THEN "cumint-last-vs-integrate"
          ELSE "ok"

Verdict(r) == CASE r.ev = "Stencil" -> VCumsum(r)
                [] r.ev = "CumsumDiff" -> VInverse(r)
                [] r.ev = "CumsumOrder" -> VOrder(r)
                [] r.ev = "Cumint" -> VCumint(r)
                [] OTHER -> "unknown-event"

Init == i = 1
Next == /\ i <= Len(Tr)
        /\ LET v == Verdict(Tr[i]) IN IF v = "ok" THEN TRUE ELSE PrintT(<<"V", Tr[i].id, v>>)
        /\ i' = i + 1
Spec == Init /\ [][Next]_i
=============================================================================
