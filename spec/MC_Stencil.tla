---------------------------- MODULE MC_Stencil ----------------------------
(* Model check: the implementation-shaped algorithms of gridops.py / Grid.cumsum *)
(* realise the geometric definitions, for every 1-D and small 2-D configuration. *)
EXTENDS Stencil, TLC
CONSTANTS MaxN, MaxN2        \* cell counts 2..MaxN for 1-D arrays, 2..MaxN2 for 2-D arrays

Vals == {-1, 0, 2}
\* MC_Stencil_specials.cfg: missing values and infinities among the data (Vals <- ValsSpecial)
ValsSpecial == {-1, 2, NaNv, InfV, -InfV}
Finite(x) == \A k \in DOMAIN x.flat : x.flat[k] \notin {NaNv, InfV, -InfV}
NoNaN(x) == \A k \in DOMAIN x.flat : x.flat[k] # NaNv
Fills == {-1, 0, 3}
Shifts == {<<f, t>> \in PosWords \X PosWords : ValidShift(f, t)}
Seqs(S, L) == [1..L -> S]

\* 1-D configurations, plus 2-D ones with an extra dimension of size 2 before or after the axis
Cfg1 == {[shape |-> <<PLen(sh[1], n)>>, d |-> 1, sh |-> sh, n |-> n] : sh \in Shifts, n \in 2..MaxN}
Cfg2 == {[shape |-> IF d = 1 THEN <<PLen(sh[1], n), 2>> ELSE <<2, PLen(sh[1], n)>>, d |-> d, sh |-> sh, n |-> n] :
            sh \in Shifts, n \in 2..MaxN2, d \in {1, 2}}

VARIABLES c, a, op, rule, fill, phase, res, resc
vars == <<c, a, op, rule, fill, phase, res, resc>>

Init == /\ c \in Cfg1 \cup Cfg2
        /\ a \in {[shape |-> c.shape, flat |-> f] : f \in Seqs(Vals, Size(c.shape))}
        /\ op \in Ops /\ rule \in Rules /\ fill \in Fills
        /\ phase = "call" /\ res = <<>> /\ resc = <<>>
\* one step = the code's algorithm
Run == /\ phase = "call"
       /\ res' = AlgoStencil(a, c.d, op, c.sh[1], c.sh[2], rule, fill)
       /\ resc' = AlgoCumsum(a, c.d, c.sh[1], c.sh[2], rule, fill)
       /\ phase' = "done"
       /\ UNCHANGED <<c, a, op, rule, fill>>
Spec == Init /\ [][Run]_vars

StencilOK == phase = "done" => res = GeoStencil(a, c.d, op, c.sh[1], c.sh[2], rule, fill)
\* (running sums are compared for data without NaN: the library's running sum skips missing values of floating-point
\* data, which neither layer models and the property does not speak about)
CumsumOK  == (phase = "done" /\ NoNaN(a)) => resc = GeoCumsum(a, c.d, c.sh[1], c.sh[2], rule, fill)
ShapeOK   == phase = "done" => /\ res.shape = [a.shape EXCEPT ![c.d] = PLen(c.sh[2], c.n)]
                               /\ resc.shape = res.shape /\ WellFormed(res) /\ WellFormed(resc)
\* differencing a running sum taken to the outer position with zero fill gives the array back
InverseOK == (phase = "call" /\ c.sh = <<"center", "outer">> /\ Finite(a)) =>
               GeoStencil(GeoCumsum(a, c.d, "center", "outer", "fill", 0), c.d, "diff", "outer", "center", rule, fill) = a
\* with NaN or an infinity in the data the inverse breaks exactly where IEEE arithmetic says (inf - inf): the unguarded
\* claim is refuted by MC_Stencil_specials_refute.cfg (a non-vacuity check of the guard above)
InverseAlways == (phase = "call" /\ c.sh = <<"center", "outer">>) =>
               GeoStencil(GeoCumsum(a, c.d, "center", "outer", "fill", 0), c.d, "diff", "outer", "center", rule, fill) = a
=============================================================================
