------------------------------ MODULE Signature ------------------------------
(* C15 / C13.  Grid-ufunc signature texts as sequences of one-character        *)
(* strings: lexer, grammar, printer, canonical form (dummy names numbered by   *)
(* first appearance) and the classes of texts that must be rejected.  A name is *)
(* an opaque word: nothing here looks inside a name except to tell it from the *)
(* five position words.                                                         *)
EXTENDS Naturals, Sequences, FiniteSets

Lower == {"a","b","c","d","e","f","g","h","i","j","k","l","m","n","o","p","q","r","s","t","u","v","w","x","y","z"}
Upper == {"A","B","C","D","E","F","G","H","I","J","K","L","M","N","O","P","Q","R","S","T","U","V","W","X","Y","Z"}
Digits == {"0","1","2","3","4","5","6","7","8","9"}
\* letters outside ASCII are word characters as well (identifiers may contain them); the ones the drivers use
OtherLetters == {"ξ", "η", "é", "Ü", "д", "о", "л", "г", "т", "а"}
WordChars == Lower \cup Upper \cup Digits \cup {"_"} \cup OtherLetters
Chars(s) == [k \in 1..Len(s) |-> s[k]]
PosWordSeqs == {<<"c","e","n","t","e","r">>, <<"l","e","f","t">>, <<"r","i","g","h","t">>,
                <<"i","n","n","e","r">>, <<"o","u","t","e","r">>}

\* ---- lexer: spaces are removed before anything else (they do not split words)
RECURSIVE Lex(_, _)
Lex(s, cur) ==
  LET flush == IF cur = <<>> THEN <<>> ELSE <<[k |-> "w", w |-> cur]>> IN
  IF s = <<>> THEN flush
  ELSE LET c == Head(s) IN
    IF c = " " THEN Lex(Tail(s), cur)
    ELSE IF c \in WordChars THEN Lex(Tail(s), Append(cur, c))
    ELSE IF c \in {"(", ")", ",", ":"} THEN flush \o <<[k |-> c, w |-> <<>>]>> \o Lex(Tail(s), <<>>)
    ELSE IF c = "-" /\ Len(s) >= 2 /\ s[2] = ">" THEN flush \o <<[k |-> "->", w |-> <<>>]>> \o Lex(Tail(Tail(s)), <<>>)
    ELSE flush \o <<[k |-> "?", w |-> <<>>]>> \o Lex(Tail(s), <<>>)
NoSpaces(s) == SelectSeq(s, LAMBDA c : c # " ")
Tokens(s) == Lex(NoSpaces(s), <<>>)

\* ---- parser: args '->' args ; args = arg (',' arg)* ; arg = '(' [pair (',' pair)*] ')' ; pair = name ':' position
RECURSIVE Pairs(_, _, _)
Pairs(t, i, acc) ==
  IF i + 2 <= Len(t) /\ t[i].k = "w" /\ t[i + 1].k = ":" /\ t[i + 2].k = "w"
     /\ t[i + 2].w \in PosWordSeqs /\ t[i].w \notin PosWordSeqs
  THEN LET acc2 == Append(acc, <<t[i].w, t[i + 2].w>>) IN
       IF i + 3 <= Len(t) /\ t[i + 3].k = "," THEN Pairs(t, i + 4, acc2)
       ELSE IF i + 3 <= Len(t) /\ t[i + 3].k = ")" THEN <<TRUE, acc2, i + 4>>
       ELSE <<FALSE, <<>>, 0>>
  ELSE <<FALSE, <<>>, 0>>
Arg(t, i) == IF i <= Len(t) /\ t[i].k = "("
             THEN IF i + 1 <= Len(t) /\ t[i + 1].k = ")" THEN <<TRUE, <<>>, i + 2>> ELSE Pairs(t, i + 1, <<>>)
             ELSE <<FALSE, <<>>, 0>>
RECURSIVE Args(_, _, _, _)
Args(t, i, stop, acc) ==
  LET a == Arg(t, i) IN
  IF ~a[1] THEN <<FALSE, <<>>>>
  ELSE IF a[3] = stop THEN <<TRUE, Append(acc, a[2])>>
  ELSE IF a[3] < stop /\ t[a[3]].k = "," THEN Args(t, a[3] + 1, stop, Append(acc, a[2]))
  ELSE <<FALSE, <<>>>>
\* <<ok, inputs, outputs>>; an argument is a sequence of <<name, position>> (both character sequences)
Parse(s) ==
  LET t == Tokens(s)
      arrows == {i \in DOMAIN t : t[i].k = "->"}
  IN IF Cardinality(arrows) # 1 THEN <<FALSE, <<>>, <<>>>>
     ELSE LET a == CHOOSE i \in arrows : TRUE
              ins == Args(t, 1, a, <<>>)
              outs == Args(t, a + 1, Len(t) + 1, <<>>)
          IN IF ins[1] /\ outs[1] THEN <<TRUE, ins[2], outs[2]>> ELSE <<FALSE, <<>>, <<>>>>

\* ---- printer
RECURSIVE JoinWith(_, _)
JoinWith(parts, sep) == IF parts = <<>> THEN <<>> ELSE IF Len(parts) = 1 THEN parts[1] ELSE parts[1] \o sep \o JoinWith(Tail(parts), sep)
PrintArg(arg) == <<"(">> \o JoinWith([k \in DOMAIN arg |-> arg[k][1] \o <<":">> \o arg[k][2]], <<",">>) \o <<")">>
PrintSide(args) == JoinWith([k \in DOMAIN args |-> PrintArg(args[k])], <<",">>)
Print(ins, outs) == PrintSide(ins) \o <<"-", ">">> \o PrintSide(outs)

\* ---- canonical form: dummy names numbered by first appearance (inputs first, then outputs)
RECURSIVE Flatten(_)
Flatten(args) == IF args = <<>> THEN <<>> ELSE [k \in DOMAIN Head(args) |-> Head(args)[k][1]] \o Flatten(Tail(args))
RECURSIVE FirstIndex(_, _, _)
FirstIndex(names, x, k) == IF names[k] = x THEN k ELSE FirstIndex(names, x, k + 1)
RECURSIVE Distinct(_, _)
Distinct(names, acc) == IF names = <<>> THEN acc
                        ELSE Distinct(Tail(names), IF \E k \in DOMAIN acc : acc[k] = Head(names) THEN acc ELSE Append(acc, Head(names)))
Canon(ins, outs) ==
  LET order == Distinct(Flatten(ins) \o Flatten(outs), <<>>)
      C(args) == [a \in DOMAIN args |-> [k \in DOMAIN args[a] |-> <<FirstIndex(order, args[a][k][1], 1), args[a][k][2]>>]]
  IN <<C(ins), C(outs)>>
Equivalent(i1, o1, i2, o2) == Canon(i1, o1) = Canon(i2, o2)

\* ---- texts that MUST be rejected (the classes the property lists), on the token sequence
Kinds(t) == [k \in DOMAIN t |-> t[k].k]
RECURSIVE DepthOK(_, _, _)
DepthOK(t, i, depth) ==      \* parentheses never nest and are balanced
  IF i > Len(t) THEN depth = 0
  ELSE IF t[i].k = "(" THEN (depth = 0 /\ DepthOK(t, i + 1, 1))
  ELSE IF t[i].k = ")" THEN (depth = 1 /\ DepthOK(t, i + 1, 0))
  ELSE DepthOK(t, i + 1, depth)
MustReject(s) ==
  LET t == Tokens(s)
      arrows == {i \in DOMAIN t : t[i].k = "->"} IN
  \/ Cardinality(arrows) # 1                                         \* no arrow, or several
  \/ \E i \in arrows : i = 1 \/ i = Len(t)                           \* a missing side
  \/ \E i \in DOMAIN t : t[i].k = "?"                                \* stray character
  \/ ~DepthOK(t, 1, 0)                                               \* unbalanced or nested parentheses
  \/ \E i \in 1..(Len(t) - 1) : t[i].k = ")" /\ t[i + 1].k = "("     \* juxtaposed parentheses
  \/ \E i \in 1..(Len(t) - 1) : t[i].k = "," /\ t[i + 1].k = ","     \* doubled comma
  \/ \E i \in DOMAIN t : t[i].k = ":" /\ (i = 1 \/ t[i - 1].k # "w")            \* empty name
  \/ \E i \in DOMAIN t : t[i].k = ":" /\ (i = Len(t) \/ t[i + 1].k # "w")       \* empty position
  \/ \E i \in 1..(Len(t) - 1) : t[i].k = ":" /\ t[i + 1].k = "w" /\ t[i + 1].w \notin PosWordSeqs   \* unknown position word
=============================================================================
