------------------------------- MODULE Errors -------------------------------
(* C20.  Classes of requests that have no defined answer, as predicates on the  *)
(* abstract call and grid (from the property text only).  IllClass(r) names the *)
(* first class a stencil / cumsum call falls into, "none" for a well-posed call.*)
EXTENDS Calls

KnownRules == {"fill", "extend", "periodic"}
WordsOf(arg) == IF arg.k = "s" THEN {arg.v} ELSE IF arg.k = "m" THEN {arg.v[k][2] : k \in DOMAIN arg.v} ELSE {}

\* per operated axis, threading the dimension names like the call does
RECURSIVE AxisClass(_, _, _)
AxisClass(r, dims, k) ==
  IF k > Len(r.args.axis) THEN "none"
  ELSE LET name == r.args.axis[k] IN
       IF ~HasAxis(r.grid, name) THEN "axis-the-grid-lacks"
       ELSE LET ax == AxisOf(r.grid, name)
                here == PosIn(ax, dims) IN
            IF Cardinality({d \in SeqToSet(dims) : d \in AxisDims(ax)}) = 0 THEN "data-without-a-dimension-of-the-axis"
            ELSE IF Cardinality({d \in SeqToSet(dims) : d \in AxisDims(ax)}) > 1 THEN "data-with-two-dimensions-of-the-axis"
            ELSE IF r.op \in {"integrate", "average"} THEN AxisClass(r, dims, k + 1)       \* no shift is involved
            ELSE LET from == ThePos(ax, dims)
                     to == ToOf(r.grid.ctor, r.args.to, ax, from) IN
                 IF to \notin PosWords \cup {"none"} THEN "unknown-position-word"
                 ELSE IF to = from THEN "shift-to-the-same-position"
                 ELSE IF to = "none" \/ to \notin PresentPos(ax) THEN "position-the-axis-lacks"
                 ELSE IF ~ValidShift(from, to) THEN "shift-between-two-face-positions"
                 ELSE AxisClass(r, ReplaceDim(dims, DimOfPos(ax, from), DimOfPos(ax, to)), k + 1)

IllClass(r) ==
  IF r.op \in {"integrate", "average"} THEN AxisClass(r, r.args.data.dims, 1)
  ELSE IF WordsOf(r.args.boundary) \ KnownRules # {} THEN "unknown-boundary-word"
  ELSE IF r.args.fill_bad THEN "non-numeric-fill-value"
  ELSE AxisClass(r, r.args.data.dims, 1)

\* transform requests: [periodic, method, has_outer, bins]
Monotonic(b) == (\A q \in 1..(Len(b) - 1) : b[q] < b[q + 1]) \/ (\A q \in 1..(Len(b) - 1) : b[q] > b[q + 1])
TransformClass(t) ==
  IF t.periodic THEN "transform-along-a-periodic-axis"
  ELSE IF t.method = "conservative" /\ ~t.has_outer THEN "conservative-without-outer-positions"
  ELSE IF t.method = "conservative" /\ ~Monotonic(t.bins) THEN "non-monotonic-conservative-bins"
  ELSE "none"
=============================================================================
