SPECIFICATION Spec
CONSTANTS MaxN = 2
          MaxW = 2
          Guarded = TRUE
INVARIANT Commutes
INVARIANT OffCornerAgree
INVARIANT CornerIsLast
CHECK_DEADLOCK FALSE
