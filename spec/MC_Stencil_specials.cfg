SPECIFICATION Spec
CONSTANTS MaxN = 3
          MaxN2 = 1
CONSTANT Vals <- ValsSpecial
INVARIANT StencilOK
INVARIANT CumsumOK
INVARIANT ShapeOK
INVARIANT InverseOK
CHECK_DEADLOCK FALSE
