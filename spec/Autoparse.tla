------------------------------ MODULE Autoparse ------------------------------
(* C14.  The COMODO and SGRID decision tables, the convention hierarchy and the *)
(* conflict rule.  A dataset is described abstractly: per dimension its length  *)
(* and annotation; the tables say which position of which axis it is.           *)
EXTENDS Integers, Sequences, FiniteSets

\* ---- COMODO: a coordinate carries axis = <name>; the one without c_grid_axis_shift is the centre (n cells);
\* shift is "none", "neg" (-0.5) or "pos" (+0.5)
ComodoPos(n, len, shift) ==
  IF shift = "none" THEN "center"
  ELSE IF len = n + 1 THEN "outer"
  ELSE IF len = n - 1 THEN "inner"
  ELSE IF len = n /\ shift = "neg" THEN "left"
  ELSE IF len = n /\ shift = "pos" THEN "right"
  ELSE "invalid"
\* how a position may be annotated: set of <<len, shift>>
ComodoEncodings(p, n) ==
  CASE p = "center" -> {<<n, "none">>}
    [] p = "left" -> {<<n, "neg">>} [] p = "right" -> {<<n, "pos">>}
    [] p = "outer" -> {<<n + 1, "neg">>, <<n + 1, "pos">>}
    [] p = "inner" -> {<<n - 1, "neg">>, <<n - 1, "pos">>}

\* ---- SGRID: the face / volume dimension is the centre; the node dimension's position follows the padding word
SgridPos(pad) == CASE pad = "high" -> "left" [] pad = "low" -> "right" [] pad = "both" -> "inner" [] pad = "none" -> "outer"
                   [] OTHER -> "invalid"
\* axes of an SGRID topology: 1 -> X; 2 -> X, Y (+ Z with vertical_dimensions); 3 -> X, Y, Z
SgridAxes(topo, vertical) == CASE topo = 1 -> {"X"} [] topo = 2 -> (IF vertical THEN {"X", "Y", "Z"} ELSE {"X", "Y"})
                               [] topo = 3 -> {"X", "Y", "Z"}

\* ---- expected coords of a description
\* COMODO description: dims = sequence of [dim, axis, len, shift]; result: set of <<axis, position, dim>>
ComodoCoords(dims) ==
  LET axes == {dims[k].axis : k \in DOMAIN dims}
      Centre(a) == CHOOSE k \in DOMAIN dims : dims[k].axis = a /\ dims[k].shift = "none"
  IN {<<dims[k].axis, ComodoPos(dims[Centre(dims[k].axis)].len, dims[k].len, dims[k].shift), dims[k].dim>> : k \in DOMAIN dims}
\* SGRID description: axes = sequence of [axis, cell, node, pad]
SgridCoords(axes) ==
  {<<axes[k].axis, "center", axes[k].cell>> : k \in DOMAIN axes} \cup
  {<<axes[k].axis, SgridPos(axes[k].pad), axes[k].node>> : k \in DOMAIN axes}
\* SGRID wins when the dataset declares it
ExpectedCoords(d) == IF d.sgrid_declared THEN SgridCoords(d.sgrid) ELSE ComodoCoords(d.comodo)
=============================================================================
