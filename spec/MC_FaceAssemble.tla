-------------------------- MODULE MC_FaceAssemble --------------------------
(* Implementation-shaped layer of C05 / C12: the per-face assembly exactly as   *)
(* `_pad_face_connections` performs it - every face basic-padded to the maximal *)
(* width on every pad axis, then for each face, for each pad axis in `order`,   *)
(* for the left and the right side: cut the W-cell strip next to the linked     *)
(* edge out of the PREPADDED source face (slice [W,2W) or [-2W,-W) of the       *)
(* padded array), exchange the dimension names for an axis-swapping link,       *)
(* reverse it along the padded axis for a reversed link, along the other axis   *)
(* for a swapping non-reversed link, and put it in place of the target's halo - *)
(* run step by step by TLC on link tables derived from oriented decompositions, *)
(* and compared cell by cell, corners included, with the closed form `Asm` of   *)
(* FaceTopology.tla that the trace specifications use.  Cells carry symbolic    *)
(* identities, so equality means "the same cell of the same face".              *)
EXTENDS FaceTopology, SequencesExt, TLC
CONSTANTS Kx, Ky, N, W, RuleSet

K == <<Kx, Ky>>
Axes == <<"X", "Y">>
AxName(x) == IF x = 1 THEN "X" ELSE "Y"
Ext == (-W)..(N + W - 1)
Coords == [{"X", "Y"} -> Ext]
Ident(f, c) == 1000 * (f + 1) + 10 * c["Y"] + c["X"]          \* identity of cell c of face f (in range only)
Val(f, c) == Ident(f, c)

VARIABLES orient, per, rules, order, face, step, tgt, done
vars == <<orient, per, rules, order, face, step, tgt, done>>

Entries == SetToSeq({<<FaceNo(K, b), AxName(ax), sd, DLink(K, per, orient, b, ax, sd).face,
                       AxName(DLink(K, per, orient, b, ax, sd).axis), DLink(K, per, orient, b, ax, sd).rev>> :
                     <<b, ax, sd>> \in {t \in Blocks(K) \X {1, 2} \X {0, 1} : DLink(K, per, orient, t[1], t[2], t[3]).face # -1}})
Lens == [a \in {"X", "Y"} |-> N]
Fills == [a \in {"X", "Y"} |-> 0]
Pre(f, c) == BasicAt(Val, f, c, Lens, order, Len(order), rules, Fills)
PreAll(f) == [c \in Coords |-> Pre(f, c)]

Init == /\ orient \in [1..(Kx * Ky) -> D4] /\ per \in [1..2 -> BOOLEAN]
        /\ Expressible(K, per, orient)
        /\ rules \in [{"X", "Y"} -> RuleSet]
        /\ order \in {<<"X", "Y">>, <<"Y", "X">>}
        /\ face = 0 /\ step = 0 /\ tgt = PreAll(0) /\ done = FALSE

\* step s of a face: axis order[(s \div 2) + 1], side s % 2 (0 = left, 1 = right)
StripCell(f, a, sd, l, k, t) ==          \* k-th cell (0-based, along the padded axis) of the strip after the flips
  LET b == l.axis
      base == IF (sd = 1) # l.rev THEN 0 ELSE N - W          \* slice(W, 2W) resp. slice(-2W, -W) of the padded source
      k0 == IF l.rev THEN W - 1 - k ELSE k                    \* reversed along the padded axis
      t0 == IF b # a /\ ~l.rev THEN (N - 1) - t ELSE t        \* whole extended range reversed along the other axis
      cs == [x \in {"X", "Y"} |-> IF x = b THEN base + k0 ELSE t0]
  IN Pre(l.face, cs)
Replace ==
  /\ ~done /\ step < 2 * Len(order)
  /\ LET a == order[(step \div 2) + 1]
         sd == step % 2
         l == LinkOf(Entries, face, a, sd)
         o == OtherAx(Axes, a) IN
     tgt' = IF ~IsLink(l) THEN tgt
            ELSE [c \in Coords |->
                    IF (sd = 1 /\ c[a] >= N) THEN StripCell(face, a, sd, l, c[a] - N, c[o])
                    ELSE IF (sd = 0 /\ c[a] < 0) THEN StripCell(face, a, sd, l, c[a] + W, c[o])
                    ELSE tgt[c]]
  /\ step' = step + 1 /\ UNCHANGED <<orient, per, rules, order, face, done>>
NextFace ==
  /\ ~done /\ step = 2 * Len(order)
  /\ IF face + 1 < Kx * Ky THEN face' = face + 1 /\ tgt' = PreAll(face + 1) /\ step' = 0 /\ done' = FALSE
     ELSE done' = TRUE /\ UNCHANGED <<face, tgt, step>>
  /\ UNCHANGED <<orient, per, rules, order>>
Next == Replace \/ NextFace
Spec == Init /\ [][Next]_vars

\* when a face is finished, every cell (corners included) is what the closed form says for this order
FaceDone == step = 2 * Len(order)
ClosedFormOK == FaceDone => \A c \in Coords :
   tgt[c] = Asm(Val, Val, Entries, Axes, face, c, N, Lens, order, rules, Fills, "none")
\* and the cells in the halo of one axis only do not depend on the order at all: they are the documented cell
OffCornerRule == FaceDone => \A c \in Coords : \A a \in {"X", "Y"} :
   LET o == OtherAx(Axes, a)
       l == LinkOf(Entries, face, a, SideOf(c[a])) IN
   (InHalo(N, c[a]) /\ ~InHalo(N, c[o]) /\ IsLink(l)) =>
      tgt[c] = Ident(l.face, [x \in {"X", "Y"} |-> IF x = l.axis THEN HaloSo(l, N, SideOf(c[a]), Depth(N, c[a])) ELSE HaloSt(l, N, a, c[o])])
=============================================================================
