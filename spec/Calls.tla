------------------------------- MODULE Calls -------------------------------
(* How a recorded Grid.diff/interp/min/max/cumsum call is read: which axis steps  *)
(* it denotes (position detection, default shift, rule and fill in force) and the *)
(* result the geometric definitions prescribe.                                    *)
EXTENDS Stencil, GridModel

\* steps for the axes named in the call, threading the dimension names
RECURSIVE StepsFrom(_, _, _, _)
StepsFrom(r, dims, k, acc) ==
  IF k > Len(r.args.axis) THEN <<acc, dims>>
  ELSE LET ax == AxisOf(r.grid, r.args.axis[k])
           from == ThePos(ax, dims)
           to == ToOf(r.grid.ctor, r.args.to, ax, from)
           old == DimOfPos(ax, from)
           st == [d |-> IndexOf(dims, old), from |-> from, to |-> to,
                  rule |-> RuleInForce(r.grid.ctor, r.args.boundary, ax.name),
                  fill |-> FillInForce(r.grid.ctor, r.args.fill_value, ax.name)]
       IN StepsFrom(r, ReplaceDim(dims, old, DimOfPos(ax, to)), k + 1, Append(acc, st))

Expected(r) ==
  LET sd == StepsFrom(r, r.args.data.dims, 1, <<>>)
      a == [shape |-> r.args.data.shape, flat |-> r.args.data.flat]
  IN [dims |-> sd[2],
      arr |-> IF r.op = "cumsum" THEN CumsumSteps(a, sd[1], 1) ELSE StencilSteps(a, r.op, sd[1], 1, 1)]

\* elementwise product with a metric defined on a subset of the array's dimensions (broadcast)
MulBroadcast(a, adims, m, mdims) ==
  Build(a.shape, LAMBDA idx : Get(a, idx) * Get(m, [k \in 1..Len(mdims) |-> idx[IndexOf(adims, mdims[k])]]))

\* sum over the dimensions named in `drop`; result keeps the remaining dims in order
RECURSIVE SumAllFrom(_, _, _, _, _)
SumAllFrom(a, idx, dropIdx, k, acc) ==
  \* iterate over all assignments of the dropped dimensions (k-th dropped dimension)
  IF k > Len(dropIdx) THEN Get(a, idx)
  ELSE LET d == dropIdx[k] IN
       LET RECURSIVE Loop(_)
           Loop(j) == IF j >= a.shape[d] THEN 0 ELSE SumAllFrom(a, [idx EXCEPT ![d] = j], dropIdx, k + 1, 0) + Loop(j + 1)
       IN Loop(0)
SumOver(a, dims, drop) ==
  LET keep == SelectSeq([k \in 1..Len(dims) |-> k], LAMBDA k : dims[k] \notin drop)
      dropIdx == SelectSeq([k \in 1..Len(dims) |-> k], LAMBDA k : dims[k] \in drop)
      kshape == [j \in 1..Len(keep) |-> a.shape[keep[j]]]
  IN [dims |-> [j \in 1..Len(keep) |-> dims[keep[j]]],
      arr |-> Build(kshape, LAMBDA kidx :
                 SumAllFrom(a, [d \in 1..Len(dims) |-> IF dims[d] \in drop THEN 0 ELSE kidx[IndexOf(keep, d)]], dropIdx, 1, 0))]
=============================================================================
