------------------------------ MODULE C07Trace ------------------------------
(* Trace validation for C07: the weight matrix of the real conservative         *)
(* transform (recovered column by column with unit vectors) must be admissible  *)
(* for Conservative.tla; results are linear in the data; target_data given on   *)
(* cell centres is first moved to the bounds by interpolation with extension.   *)
EXTENDS Conservative, Json, IOUtils, TLC

Tr == ndJsonDeserialize(IOEnv.TRACE_FILE)
VARIABLE i

Rev(s) == [k \in DOMAIN s |-> s[Len(s) + 1 - k]]
Increasing(b) == \A q \in 1..(Len(b) - 1) : b[q] < b[q + 1]
Decreasing(b) == \A q \in 1..(Len(b) - 1) : b[q] > b[q + 1]

\* bounds values (times 2) from centre values: mean of the two neighbours, nearest value beyond the ends
BoundsFromCentres(tc) == [k \in 1..(Len(tc) + 1) |->
   (IF k = 1 THEN tc[1] ELSE tc[k - 1]) + (IF k = Len(tc) + 1 THEN tc[Len(tc)] ELSE tc[k])]

RECURSIVE ProdDen(_, _, _)
ProdDen(W, j, c) == IF c > Len(W) THEN 1 ELSE W[c][j][2] * ProdDen(W, j, c + 1)
RECURSIVE LinSum(_, _, _, _, _)
LinSum(W, phi, j, L, c) == IF c > Len(W) THEN 0 ELSE phi[c] * W[c][j][1] * (L \div W[c][j][2]) + LinSum(W, phi, j, L, c + 1)

VConservative(r) ==
  IF r.out.k # "weights" THEN "raised-on-valid-call"
  ELSE IF ~(Increasing(r.bins) \/ Decreasing(r.bins)) THEN "driver-bins-not-monotonic"
  ELSE LET b == IF Increasing(r.bins) THEN r.bins ELSE Rev(r.bins)
           W == IF Increasing(r.bins) THEN r.out.W ELSE [c \in DOMAIN r.out.W |-> Rev(r.out.W[c])]
           n == Len(r.theta) - 1
       IN IF r.via = "grid-centres" /\ r.theta # BoundsFromCentres(r.thetac) THEN "driver-bounds-mismatch"
          ELSE IF Len(W) # n \/ \E c \in DOMAIN W : Len(W[c]) # NBins(b) THEN "shape"
          ELSE IF \E c \in DOMAIN W : \E j \in DOMAIN W[c] : W[c][j][2] <= 0 \/ W[c][j][1] < 0 THEN "negative-weight"
          ELSE IF \E c \in 1..n : r.theta[c] = r.theta[c + 1] /\ ~CellOK(r.theta[c], r.theta[c + 1], b, W[c]) THEN "homogeneous-cell"
          ELSE IF \E c \in 1..n : ~CellOK(r.theta[c], r.theta[c + 1], b, W[c]) THEN "overlap-weight"
          ELSE IF \E j \in 1..NBins(r.bins) :
                    LET L == ProdDen(r.out.W, j, 1) IN
                    r.out.lin[j][1] * L # LinSum(r.out.W, r.phi, j, L, 1) * r.out.lin[j][2] THEN "not-linear-in-data"
          \* listing the same bins in the opposite order only reverses the output (same data, same column)
          ELSE IF r.out.lin_rev # Rev(r.out.lin) THEN "reversed-bins-do-not-just-reverse-the-output"
          ELSE IF r.out.newdim # r.expect_newdim THEN "new-dimension-name"
          ELSE "ok"

Verdict(r) == IF r.ev = "Conservative" THEN VConservative(r) ELSE "unknown-event"
Init == i = 1
Next == /\ i <= Len(Tr)
        /\ LET v == Verdict(Tr[i]) IN IF v = "ok" THEN TRUE ELSE PrintT(<<"V", Tr[i].id, v>>)
        /\ i' = i + 1
Spec == Init /\ [][Next]_i
=============================================================================
