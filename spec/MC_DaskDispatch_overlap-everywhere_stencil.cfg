SPECIFICATION Spec
CONSTANTS K = 3
          Rule = "overlap-everywhere"
          Op = "stencil"
INVARIANT NoOtherError
INVARIANT RefusalExact
PROPERTY Sticky
CHECK_DEADLOCK FALSE
