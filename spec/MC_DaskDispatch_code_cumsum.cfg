SPECIFICATION Spec
CONSTANTS K = 3
          Rule = "code"
          Op = "cumsum"
INVARIANT NoOtherError
INVARIANT RefusalExact
PROPERTY Sticky
CHECK_DEADLOCK FALSE
