------------------------------ MODULE C17Trace ------------------------------
(* Trace validation for C17: Grid(ds, face_connections=...) is constructed      *)
(* exactly for reciprocal tables over existing faces and axes, with exactly one *)
(* face dimension that exists in the dataset.                                   *)
EXTENDS FaceTopology, Json, IOUtils, TLC

Tr == ndJsonDeserialize(IOEnv.TRACE_FILE)
VARIABLE i

MustConstruct(r) == /\ r.nfacedims = 1 /\ r.facedim_in_ds
                    /\ Reciprocal(r.table, r.nfaces, {r.axes[k] : k \in DOMAIN r.axes})
Verdict(r) == IF MustConstruct(r) /\ r.out.k # "constructed" THEN "rejected-reciprocal-table"
              ELSE IF ~MustConstruct(r) /\ r.out.k = "constructed" THEN "accepted-inconsistent-table"
              ELSE "ok"

Init == i = 1
Next == /\ i <= Len(Tr)
        /\ LET v == Verdict(Tr[i]) IN IF v = "ok" THEN TRUE ELSE PrintT(<<"V", Tr[i].id, v>>)
        /\ i' = i + 1
Spec == Init /\ [][Next]_i
=============================================================================
