------------------------------ MODULE Stencil ------------------------------
(* C01 / C09.  Declarative (geometric) meaning of diff/interp/min/max and of   *)
(* cumsum on a simple grid, and the implementation-shaped algorithm (pad by a  *)
(* per-shift width, then a forward pair operator; running sum, then trim/pad). *)
(* Interpolation is carried scaled: Comb("interp") is the SUM of the two       *)
(* neighbours, so after k interp steps values are 2^k times the real ones and  *)
(* fill values are scaled by the scale of the array they are padded into.      *)
EXTENDS Arr, Positions

Ops == {"diff", "interp", "min", "max"}
Rules == {"fill", "extend", "periodic"}

Min2(x, y) == IF x < y THEN x ELSE y
Max2(x, y) == IF x < y THEN y ELSE x
\* lower = value at coordinate c-1, upper = value at c+1
\* a missing value (NaN) is carried as the distinguished integer NaNv and the infinities as +/- InfV; the four
\* operators treat them as IEEE arithmetic does (NaN is handed on; inf - inf and inf + (-inf) are NaN)
NaNv == 2147483641
InfV == 2147483639
IsInf(x) == x = InfV \/ x = -InfV
Comb(op, lower, upper) ==
  IF lower = NaNv \/ upper = NaNv THEN NaNv
  ELSE CASE op = "diff" -> (IF IsInf(upper) /\ IsInf(lower) THEN (IF upper = lower THEN NaNv ELSE upper)
                            ELSE IF IsInf(upper) THEN upper ELSE IF IsInf(lower) THEN -lower ELSE upper - lower)
         [] op = "interp" -> (IF IsInf(upper) /\ IsInf(lower) THEN (IF upper = lower THEN upper ELSE NaNv)
                              ELSE IF IsInf(upper) THEN upper ELSE IF IsInf(lower) THEN lower ELSE upper + lower)
         [] op = "min" -> Min2(lower, upper) [] op = "max" -> Max2(lower, upper)

------------------------------------------------------------------------------
\* Declarative layer: neighbours by coordinate
GeoStencil(a, d, op, from, to, rule, fill) ==
  LET n == CellsOf(from, a.shape[d]) IN
  Build([a.shape EXCEPT ![d] = PLen(to, n)],
        LAMBDA idx : LET c == Coord(to, idx[d]) IN
           Comb(op, AtRule(a, idx, d, IdxOf(from, c - 1), rule, fill),
                    AtRule(a, idx, d, IdxOf(from, c + 1), rule, fill)))

\* addition that knows the infinities (a running sum that has met +inf stays there until it meets -inf)
Plus(x, y) == IF x = NaNv \/ y = NaNv THEN NaNv
              ELSE IF IsInf(x) /\ IsInf(y) THEN (IF x = y THEN x ELSE NaNv)
              ELSE IF IsInf(x) THEN x ELSE IF IsInf(y) THEN y ELSE x + y
\* sum of the input values at coordinates strictly below c
RECURSIVE SumBeforeFrom(_, _, _, _, _, _)
SumBeforeFrom(a, idx, d, from, c, i) ==
  IF i >= a.shape[d] \/ Coord(from, i) >= c THEN 0
  ELSE Plus(Get(a, [idx EXCEPT ![d] = i]), SumBeforeFrom(a, idx, d, from, c, i + 1))
SumBefore(a, idx, d, from, c) == SumBeforeFrom(a, idx, d, from, c, 0)

GeoCumsum(a, d, from, to, rule, fill) ==
  LET n == CellsOf(from, a.shape[d])
      L2 == PLen(to, n) IN
  Build([a.shape EXCEPT ![d] = L2],
        LAMBDA idx : LET c == Coord(to, idx[d]) IN
           IF Coord(from, 0) < c THEN SumBefore(a, idx, d, from, c)
           ELSE CASE rule = "fill" -> fill
                  [] rule = "extend" -> SumBefore(a, idx, d, from, Coord(to, idx[d] + 1))
                  [] rule = "periodic" -> SumBefore(a, idx, d, from, Coord(to, L2 - 1)))

------------------------------------------------------------------------------
\* Implementation-shaped layer: the tables of gridops.py and Grid.cumsum
PadWidth(from, to) ==
  CASE from = "center" /\ to = "left"  -> <<1, 0>> [] from = "left"  /\ to = "center" -> <<0, 1>>
    [] from = "center" /\ to = "right" -> <<0, 1>> [] from = "right" /\ to = "center" -> <<1, 0>>
    [] from = "center" /\ to = "outer" -> <<1, 1>> [] from = "outer" /\ to = "center" -> <<0, 0>>
    [] from = "center" /\ to = "inner" -> <<0, 0>> [] from = "inner" /\ to = "center" -> <<1, 1>>

AlgoStencil(a, d, op, from, to, rule, fill) ==
  LET w == PadWidth(from, to)
      p == PadDim(a, d, w[1], w[2], rule, fill) IN
  Build([p.shape EXCEPT ![d] = p.shape[d] - 1],
        LAMBDA idx : Comb(op, Get(p, idx), Get(p, [idx EXCEPT ![d] = idx[d] + 1])))

RECURSIVE PrefixSum(_, _, _, _)
PrefixSum(a, idx, d, i) == IF i < 0 THEN 0 ELSE Plus(Get(a, [idx EXCEPT ![d] = i]), PrefixSum(a, idx, d, i - 1))
RunSum(a, d) == Build(a.shape, LAMBDA idx : PrefixSum(a, idx, d, idx[d]))
\* <<drop last?, pad lower>> per shift
CumTable(from, to) ==
  CASE from = "center" /\ to = "right" -> <<FALSE, 0>> [] from = "left"  /\ to = "center" -> <<FALSE, 0>>
    [] from = "center" /\ to = "left"  -> <<TRUE, 1>>  [] from = "right" /\ to = "center" -> <<TRUE, 1>>
    [] from = "center" /\ to = "inner" -> <<TRUE, 0>>  [] from = "outer" /\ to = "center" -> <<TRUE, 0>>
    [] from = "center" /\ to = "outer" -> <<FALSE, 1>> [] from = "inner" /\ to = "center" -> <<FALSE, 1>>
AlgoCumsum(a, d, from, to, rule, fill) ==
  LET t == CumTable(from, to)
      cs == RunSum(a, d)
      tr == IF t[1] THEN Build([cs.shape EXCEPT ![d] = cs.shape[d] - 1], LAMBDA idx : Get(cs, idx)) ELSE cs
  IN PadDim(tr, d, t[2], 0, rule, fill)

------------------------------------------------------------------------------
\* Several axes: steps is a sequence of records [d, from, to, rule, fill]; op fixed.
\* `scale` multiplies fill values (interp carries a factor 2 per step).
RECURSIVE StencilSteps(_, _, _, _, _)
StencilSteps(a, op, steps, k, scale) ==
  IF k > Len(steps) THEN a
  ELSE LET s == steps[k] IN
       StencilSteps(GeoStencil(a, s.d, op, s.from, s.to, s.rule, s.fill * scale), op, steps, k + 1,
                    IF op = "interp" THEN 2 * scale ELSE scale)
RECURSIVE CumsumSteps(_, _, _)
CumsumSteps(a, steps, k) ==
  IF k > Len(steps) THEN a
  ELSE LET s == steps[k] IN CumsumSteps(GeoCumsum(a, s.d, s.from, s.to, s.rule, s.fill), steps, k + 1)
=============================================================================
