------------------------------ MODULE C01Trace ------------------------------
(* Trace validation for C01 (and the cumsum half of C09): every recorded call of *)
(* Grid.diff/interp/min/max/cumsum on a simple grid is recomputed geometrically.  *)
EXTENDS Stencil, GridModel, Json, IOUtils, TLC

Tr == ndJsonDeserialize(IOEnv.TRACE_FILE)
VARIABLE i

\* steps for the axes named in the call, threading the dimension names
RECURSIVE StepsFrom(_, _, _, _)
StepsFrom(r, dims, k, acc) ==
  IF k > Len(r.args.axis) THEN <<acc, dims>>
  ELSE LET ax == AxisOf(r.grid, r.args.axis[k])
           from == ThePos(ax, dims)
           to == ToOf(r.grid.ctor, r.args.to, ax, from)
           old == DimOfPos(ax, from)
           st == [d |-> IndexOf(dims, old), from |-> from, to |-> to,
                  rule |-> RuleInForce(r.grid.ctor, r.args.boundary, ax.name),
                  fill |-> FillInForce(r.grid.ctor, r.args.fill_value, ax.name)]
       IN StepsFrom(r, ReplaceDim(dims, old, DimOfPos(ax, to)), k + 1, Append(acc, st))

Expected(r) ==
  LET sd == StepsFrom(r, r.args.data.dims, 1, <<>>)
      a == [shape |-> r.args.data.shape, flat |-> r.args.data.flat]
  IN [dims |-> sd[2],
      arr |-> IF r.op = "cumsum" THEN CumsumSteps(a, sd[1], 1) ELSE StencilSteps(a, r.op, sd[1], 1, 1)]

Verdict(r) ==
  IF r.out.k # "array" THEN "raised-on-valid-call"
  ELSE LET e == Expected(r) IN
       IF r.out.dims # e.dims THEN "dims"
       ELSE IF r.out.shape # e.arr.shape THEN "shape"
       ELSE IF r.out.flat # e.arr.flat THEN "values"
       ELSE "ok"

Init == i = 1
Next == /\ i <= Len(Tr)
        /\ LET v == Verdict(Tr[i]) IN IF v = "ok" THEN TRUE ELSE PrintT(<<"V", Tr[i].id, v>>)
        /\ i' = i + 1
Spec == Init /\ [][Next]_i
=============================================================================
