------------------------------ MODULE C01Trace ------------------------------
(* Trace validation for C01 (and the cumsum half of C09): every recorded call of *)
(* Grid.diff/interp/min/max/cumsum on a simple grid is recomputed geometrically.  *)
EXTENDS Calls, Json, IOUtils, TLC

Tr == ndJsonDeserialize(IOEnv.TRACE_FILE)
VARIABLE i

Verdict(r) ==
  IF r.out.k # "array" THEN "raised-on-valid-call"
  ELSE LET e == Expected(r) IN
       IF r.out.dims # e.dims THEN "dims"
       ELSE IF r.out.shape # e.arr.shape THEN "shape"
       ELSE IF r.out.flat # e.arr.flat THEN "values"
       ELSE "ok"

Init == i = 1
Next == /\ i <= Len(Tr)
        /\ LET v == Verdict(Tr[i]) IN IF v = "ok" THEN TRUE ELSE PrintT(<<"V", Tr[i].id, v>>)
        /\ i' = i + 1
Spec == Init /\ [][Next]_i
=============================================================================
