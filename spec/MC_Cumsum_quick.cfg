SPECIFICATION Spec
CONSTANTS MaxN = 2
          Vals = {1, 2}
INVARIANT Commutes
INVARIANT LastIsTotal
CHECK_DEADLOCK FALSE
