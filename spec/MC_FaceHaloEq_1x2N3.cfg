SPECIFICATION Spec
CONSTANTS Kx = 1
          Ky = 2
          N = 3
          Dk = 1
          T = 1
INVARIANT LinksEqual
INVARIANT BlocksEqual
INVARIANT ExpressibleEqual
INVARIANT WindowsEqual
INVARIANT RuleEqual
INVARIANT StatementsHold
CHECK_DEADLOCK FALSE
