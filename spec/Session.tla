------------------------------- MODULE Session -------------------------------
(* A whole working session on a one-axis grid, as one state machine: the user   *)
(* keeps a store of named arrays, feeds results back into later calls, and      *)
(* changes the metric registry in between.  State = (registry, store).  Every   *)
(* operator call is a function of (registry, store, arguments); set_metrics is  *)
(* the only action that changes the registry and no action changes an existing  *)
(* store entry.  Arrays are one-dimensional sequences of exact rationals         *)
(* <<num, den>> (den > 0) located at one of the positions of the axis.          *)
EXTENDS Metrics, Positions, TLC

\* ---- rationals
RNorm(r) == IF r[2] < 0 THEN <<-r[1], -r[2]>> ELSE r
RAdd(a, b) == <<a[1] * b[2] + b[1] * a[2], a[2] * b[2]>>
RSub(a, b) == <<a[1] * b[2] - b[1] * a[2], a[2] * b[2]>>
RMul(a, b) == <<a[1] * b[1], a[2] * b[2]>>
RDiv(a, b) == RNorm(<<a[1] * b[2], a[2] * b[1]>>)
RLess(a, b) == a[1] * b[2] < b[1] * a[2]
REq(a, b) == a[1] * b[2] = b[1] * a[2]
RInt(k) == <<k, 1>>
RSeqEq(x, y) == Len(x) = Len(y) /\ \A k \in DOMAIN x : REq(x[k], y[k])

RComb(op, lo, hi) == CASE op = "diff" -> RSub(hi, lo) [] op = "interp" -> RMul(RAdd(hi, lo), <<1, 2>>)
                       [] op = "min" -> (IF RLess(hi, lo) THEN hi ELSE lo) [] op = "max" -> (IF RLess(hi, lo) THEN lo ELSE hi)
\* element i (0-based, possibly out of range) of sequence x under a boundary rule
RAt(x, i, rule, fill) ==
  LET L == Len(x) IN
  IF i >= 0 /\ i < L THEN x[i + 1]
  ELSE CASE rule = "fill" -> RInt(fill) [] rule = "extend" -> (IF i < 0 THEN x[1] ELSE x[L])
         [] rule = "periodic" -> x[(((i % L) + L) % L) + 1]
\* the two-neighbour stencil and the running sum, geometrically (as in Stencil.tla, on rationals)
SStencil(x, op, from, to, rule, fill) ==
  LET n == CellsOf(from, Len(x)) IN
  [j \in 1..PLen(to, n) |-> LET c == Coord(to, j - 1) IN
      RComb(op, RAt(x, IdxOf(from, c - 1), rule, fill), RAt(x, IdxOf(from, c + 1), rule, fill))]
RECURSIVE RSumBefore(_, _, _, _)
RSumBefore(x, from, c, i) == IF i >= Len(x) \/ Coord(from, i) >= c THEN RInt(0) ELSE RAdd(x[i + 1], RSumBefore(x, from, c, i + 1))
SCumsum(x, from, to, rule, fill) ==
  LET n == CellsOf(from, Len(x))  L2 == PLen(to, n) IN
  [j \in 1..L2 |-> LET c == Coord(to, j - 1) IN
      IF Coord(from, 0) < c THEN RSumBefore(x, from, c, 0)
      ELSE CASE rule = "fill" -> RInt(fill)
             [] rule = "extend" -> RSumBefore(x, from, Coord(to, j), 0)
             [] rule = "periodic" -> RSumBefore(x, from, Coord(to, L2 - 1), 0)]

\* ---- the metric of the single axis at a position: the registered variable there (values as integers);
\* the sessions keep every position registered, so no interpolation is involved
MetricAt(reg, SlotOf, Values, pos) ==
  LET occ == {v \in SeqToSet(reg["X"]) : SlotOf[v] = pos} IN Values[CHOOSE v \in occ : TRUE]
HasMetricAt(reg, SlotOf, pos) == \E v \in SeqToSet(reg["X"]) : SlotOf[v] = pos
RTimes(x, m) == [k \in DOMAIN x |-> RMul(x[k], RInt(m[k]))]
ROver(x, m) == [k \in DOMAIN x |-> RDiv(x[k], RInt(m[k]))]
RECURSIVE RSumAll(_, _)
RSumAll(x, k) == IF k > Len(x) THEN RInt(0) ELSE RAdd(x[k], RSumAll(x, k + 1))
RECURSIVE ISumAll(_, _)
ISumAll(m, k) == IF k > Len(m) THEN 0 ELSE m[k] + ISumAll(m, k + 1)

\* ---- what a call answers, given the registry and the input array [pos, v]
Answer(call, reg, SlotOf, Values, inp) ==
  CASE call.kind \in {"diff", "interp", "min", "max"} -> [pos |-> call.to, v |-> SStencil(inp.v, call.kind, inp.pos, call.to, call.rule, call.fill)]
    [] call.kind = "cumsum" -> [pos |-> call.to, v |-> SCumsum(inp.v, inp.pos, call.to, call.rule, call.fill)]
    [] call.kind = "derivative" -> [pos |-> call.to, v |-> ROver(SStencil(inp.v, "diff", inp.pos, call.to, call.rule, call.fill),
                                                                MetricAt(reg, SlotOf, Values, call.to))]
    [] call.kind = "cumint" -> [pos |-> call.to, v |-> SCumsum(RTimes(inp.v, MetricAt(reg, SlotOf, Values, inp.pos)), inp.pos, call.to, call.rule, call.fill)]
    [] call.kind = "integrate" -> [pos |-> "scalar", v |-> <<RSumAll(RTimes(inp.v, MetricAt(reg, SlotOf, Values, inp.pos)), 1)>>]
    [] call.kind = "average" -> [pos |-> "scalar", v |-> <<RDiv(RSumAll(RTimes(inp.v, MetricAt(reg, SlotOf, Values, inp.pos)), 1),
                                                                  RInt(ISumAll(MetricAt(reg, SlotOf, Values, inp.pos), 1)))>>]
    [] call.kind = "weighted" -> [pos |-> call.to, v |-> ROver(SStencil(RTimes(inp.v, MetricAt(reg, SlotOf, Values, inp.pos)), call.op, inp.pos, call.to, call.rule, call.fill),
                                                              MetricAt(reg, SlotOf, Values, call.to))]
NeedsMetric(call, inp) == CASE call.kind = "derivative" -> {call.to} [] call.kind \in {"cumint", "integrate", "average"} -> {inp.pos}
                            [] call.kind = "weighted" -> {inp.pos, call.to} [] OTHER -> {}
=============================================================================
