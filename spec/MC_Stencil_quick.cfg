SPECIFICATION Spec
CONSTANTS MaxN = 4
          MaxN2 = 2
INVARIANT StencilOK
INVARIANT CumsumOK
INVARIANT ShapeOK
INVARIANT InverseOK
CHECK_DEADLOCK FALSE
