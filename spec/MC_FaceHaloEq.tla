--------------------------- MODULE MC_FaceHaloEq ---------------------------
(* Ties spec/apalache/FaceHaloInd.tla (the typed copy Apalache works on, for   *)
(* unknown N) to FaceTopology.tla (what the trace specifications use): on every *)
(* decomposition TLC can enumerate, every definition of the one equals its     *)
(* counterpart in the other - derived links, expressibility, windows of the    *)
(* undivided domain within one face size of the block, and the link rule.      *)
EXTENDS FaceTopology, TLC
CONSTANTS Kx, Ky, N, Dk, T
VARIABLES orient, per
vars == <<orient, per>>
K == <<Kx, Ky>>
H == INSTANCE FaceHaloInd

Init == orient \in [1..9 -> D4] /\ per \in [1..2 -> BOOLEAN] /\ \A f \in (Kx * Ky + 1)..9 : orient[f] = [s |-> 0, fx |-> 0, fy |-> 0]
Next == UNCHANGED vars
Spec == Init /\ [][Next]_vars

LinksEqual == \A b \in Blocks(K), ax \in {1, 2}, sd \in {0, 1} :
   LET l == DLink(K, per, orient, b, ax, sd)
       h == H!DLink(b[1], b[2], ax, sd)
   IN /\ l.face = h.face
      /\ l.face # -1 => /\ l.axis = h.axis /\ l.rev = h.rev /\ l.mirrored = h.mirrored
                        /\ BlockOfFace(K, l.face) = <<h.nbx, h.nby>>
BlocksEqual == Blocks(K) = H!Blocks
ExpressibleEqual == Expressible(K, per, orient) <=> H!Expressible
WindowsEqual == \A b \in Blocks(K), i \in (-N)..(2 * N - 1), j \in (-N)..(2 * N - 1) :
   Window(K, N, per, orient, b, i, j) = H!Window(b[1], b[2], i, j)
RuleEqual == \A laxis \in {1, 2}, rev \in BOOLEAN, a \in {1, 2}, sd \in {0, 1}, k \in 1..N, t \in 0..(N - 1) :
   LET l3 == [face |-> 0, axis |-> IF laxis = 1 THEN "X" ELSE "Y", rev |-> rev] IN
   /\ HaloSo(l3, N, sd, k) = H!HaloSo(rev, sd, k)
   /\ HaloSt(l3, N, IF a = 1 THEN "X" ELSE "Y", t) = H!HaloSt(laxis, rev, a, t)
\* and the statements themselves, for the (depth, position) of this instance
StatementsHold == H!HaloOK /\ H!Symmetric /\ H!RecipOK
=============================================================================
