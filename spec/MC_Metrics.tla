----------------------------- MODULE MC_Metrics -----------------------------
(* C16: every history of set_metrics calls over a pool of two candidate        *)
(* variables per slot, two slots per key, two keys.  `latest` is a history      *)
(* variable recording the last successful registration per slot.               *)
(* (it is determined by reg, so it does not multiply the states).              *)
EXTENDS Metrics, TLC
CONSTANTS MaxCalls

Keys == {"K1", "K2"}
Vars == {"k1c1", "k1c2", "k1l1", "k1l2", "k1o1", "k2c1", "k2c2", "k2l1", "k2l2"}
KeyOf == [v \in Vars |-> IF v \in {"k1c1", "k1c2", "k1l1", "k1l2", "k1o1"} THEN "K1" ELSE "K2"]
SlotOf == [v \in Vars |-> CASE v \in {"k1c1", "k1c2"} -> "K1c" [] v \in {"k1l1", "k1l2"} -> "K1l" [] v = "k1o1" -> "K1o"
                            [] v \in {"k2c1", "k2c2"} -> "K2c" [] v \in {"k2l1", "k2l2"} -> "K2l"]
Slots == {"K1c", "K1l", "K1o", "K2c", "K2l"}
\* variable lists a call may name: 1-3 variables of one key at pairwise different positions, or two variables of one
\* slot (the same variable twice included): the second then meets the slot the first has just filled
Lists(k) == {<<v>> : v \in {x \in Vars : KeyOf[x] = k}}
              \cup {<<v, w>> : <<v, w>> \in {t \in Vars \X Vars : KeyOf[t[1]] = k /\ KeyOf[t[2]] = k}}
              \cup {<<u, v, w>> : <<u, v, w>> \in {t \in Vars \X Vars \X Vars : KeyOf[t[1]] = k /\ KeyOf[t[2]] = k /\ KeyOf[t[3]] = k
                                                         /\ Cardinality({SlotOf[t[1]], SlotOf[t[2]], SlotOf[t[3]]}) = 3}}

VARIABLES reg, latest, ncalls
vars == <<reg, latest, ncalls>>
Init == reg = [k \in Keys |-> <<>>] /\ latest = [s \in Slots |-> "none"] /\ ncalls = 0

RECURSIVE LatestAfter(_, _, _, _, _)
LatestAfter(l, r, vs, ow, j) ==   \* history of successful registrations of this call
  IF j > Len(vs) THEN l
  ELSE LET occupied == \E q \in DOMAIN r[KeyOf[vs[j]]] : SlotOf[r[KeyOf[vs[j]]][q]] = SlotOf[vs[j]] IN
       IF occupied /\ ~ow THEN l
       ELSE LatestAfter([l EXCEPT ![SlotOf[vs[j]]] = vs[j]], Register1(r, SlotOf, KeyOf[vs[j]], vs[j], ow).reg, vs, ow, j + 1)

SetMetrics(k, vs, ow) ==
  /\ ncalls < MaxCalls
  /\ LET s == SetMetricsSpec(reg, SlotOf, k, vs, ow) IN
     /\ reg' = s.reg
     /\ latest' = LatestAfter(latest, reg, vs, ow, 1)
  /\ ncalls' = ncalls + 1
Next == \E k \in Keys, ow \in BOOLEAN : \E vs \in Lists(k) : SetMetrics(k, vs, ow)
Spec == Init /\ [][Next]_vars

SlotHoldsLatest == \A s \in Slots : \A k \in Keys :
   LET occ == Occupant(reg, SlotOf, k, s) IN
   IF latest[s] = "none" THEN occ = {} ELSE (KeyOf[latest[s]] = k => occ = {latest[s]})
AtMostOne == OneVarPerSlot(reg, SlotOf)
\* a refused call leaves the refused slot - and everything else - as it was when the refused element was reached
\* (earlier elements of the batch have been registered, possibly into that very slot).  Stated over every call that
\* could be issued in the current state, so that no history variable is needed.
RefusalKeeps == \A k \in Keys, ow \in BOOLEAN : \A vs \in Lists(k) :
   LET res == SetMetricsSpec(reg, SlotOf, k, vs, ow) IN
   res.refused => \E j \in DOMAIN vs :
      LET s == SlotOf[vs[j]]
          pre == SetMetricsSpec(reg, SlotOf, k, SubSeq(vs, 1, j - 1), ow) IN
      /\ ~pre.refused /\ res.reg = pre.reg /\ ~ow
      /\ Occupant(res.reg, SlotOf, k, s) # {}
\* batching: a two-variable call equals the two single calls
BatchingOK == \A k \in Keys, ow \in BOOLEAN : \A vs \in Lists(k) : Len(vs) >= 2 =>
   LET one == SetMetricsSpec(reg, SlotOf, k, <<vs[1]>>, ow) IN
   SetMetricsSpec(reg, SlotOf, k, vs, ow) =
     (IF one.refused THEN one ELSE SetMetricsSpec(one.reg, SlotOf, k, Tail(vs), ow))
=============================================================================
