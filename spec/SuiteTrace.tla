------------------------------ MODULE SuiteTrace ------------------------------
(* Structural validation of the calls the repository's own test suite makes     *)
(* (recorded by harness/verif_plugin.py; no values, the tests use random        *)
(* floats): dimension names, order and lengths of every returned array (C01),   *)
(* its coordinates and name (C19), and that ill-posed requests raise (C20).     *)
EXTENDS Errors, Coords, Json, IOUtils, TLC
Tr == ndJsonDeserialize(IOEnv.TRACE_FILE)
VARIABLE i

RECURSIVE ShapeAfter(_, _, _, _)
ShapeAfter(r, dims, shape, k) ==
  IF k > Len(r.args.axis) THEN <<dims, shape>>
  ELSE LET ax == AxisOf(r.grid, r.args.axis[k])
           from == ThePos(ax, dims)
           to == ToOf(r.grid.ctor, r.args.to, ax, from)
           d == IndexOf(dims, DimOfPos(ax, from))
       IN ShapeAfter(r, ReplaceDim(dims, DimOfPos(ax, from), DimOfPos(ax, to)), [shape EXCEPT ![d] = PLen(to, ax.n)], k + 1)

VSuite(r) ==
  LET ill == IllClass(r) IN
  IF ill # "none" THEN (IF r.out.k = "array" THEN "C20-ill-posed-request-answered" ELSE "ok")
  ELSE IF r.out.k # "array" THEN "ok"                  \* raised for a reason outside the listed classes: not judged here
  ELSE LET e == ShapeAfter(r, r.args.data.dims, r.args.data.shape, 1)
           names == {r.out.coords[k] : k \in DOMAIN r.out.coords}
           dsnames == {r.dscoords[k].name : k \in DOMAIN r.dscoords}
           want == ExpectedCoordNames(r.dscoords, e[1], r.args.keep_coords)
       IN IF r.out.dims # e[1] THEN "C01-dims"
          ELSE IF r.out.shape # e[2] THEN "C01-shape"
          ELSE IF \E d \in SeqToSet(e[1]) \ SeqToSet(r.args.data.dims) : d \in names /\ d \notin dsnames THEN "C19-new-dimension-coordinate-not-from-the-grid-dataset"
          ELSE IF \E c \in want : c \notin names THEN "C19-coordinate-missing"
          ELSE IF \E c \in names \cap dsnames : c \notin want THEN "C19-coordinate-not-expected"
          ELSE IF r.out.name # r.args.name THEN "C19-result-name"
          ELSE "ok"
Verdict(r) == IF r.ev = "SuiteCall" THEN VSuite(r) ELSE "unknown-event"
Init == i = 1
Next == /\ i <= Len(Tr)
        /\ LET v == Verdict(Tr[i]) IN IF v = "ok" THEN TRUE ELSE PrintT(<<"V", Tr[i].id, v>>)
        /\ i' = i + 1
Spec == Init /\ [][Next]_i
=============================================================================
