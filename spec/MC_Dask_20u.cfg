SPECIFICATION Spec
CONSTANTS N = 5
          Lo = 2
          Hi = 0
          ClampToNeighbour = FALSE
INVARIANT Lazy
INVARIANT ResultOK
INVARIANT ChunksOK
CHECK_DEADLOCK FALSE
