----------------------------- MODULE MC_Linear -----------------------------
(* C08 theorems on the specification: reversing the column changes nothing,    *)
(* the interpolant passes through the data, lies between the segment's ends,   *)
(* masking exactly at the end values keeps them, and without masking levels     *)
(* beyond the range take the nearest end value.                                 *)
EXTENDS LinearInterp, TLC
CONSTANTS MaxLen, T
Vals == {-1, 0, 2}
Mono == {s \in UNION {[1..k -> 0..T] : k \in 2..MaxLen} : StrictInc(s) \/ StrictDec(s)}
VARIABLES theta, phi, t, mask, val, phase
vars == <<theta, phi, t, mask, val, phase>>
Init == /\ theta \in Mono /\ phi \in UNION {[1..k -> Vals] : k \in 2..MaxLen} /\ Len(phi) = Len(theta)
        /\ t \in -1..(T + 1) /\ mask \in BOOLEAN /\ val = NaN /\ phase = "call"
Run == phase = "call" /\ phase' = "done" /\ val' = InterpAt(theta, phi, t, mask) /\ UNCHANGED <<theta, phi, t, mask>>
Spec == Init /\ [][Run]_vars

DirectionFree == phase = "done" => RatEq(val, InterpAt(Rev(theta), Rev(phi), t, mask)) /\ RatEq(InterpAt(Rev(theta), Rev(phi), t, mask), val)
ThroughData == phase = "done" => \A k \in DOMAIN theta : theta[k] = t => RatEq(val, <<phi[k], 1>>)
Between == (phase = "done" /\ ThMin(theta) <= t /\ t <= ThMax(theta)) =>
   LET k == Segment(theta, t)  lo == IF phi[k] < phi[k + 1] THEN phi[k] ELSE phi[k + 1]
       hi == IF phi[k] < phi[k + 1] THEN phi[k + 1] ELSE phi[k] IN
   val[2] > 0 /\ lo * val[2] <= val[1] /\ val[1] <= hi * val[2]
Edges == phase = "done" => (val = NaN <=> (mask /\ (t < ThMin(theta) \/ t > ThMax(theta))))
=============================================================================
