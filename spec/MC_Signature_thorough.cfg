SPECIFICATION Spec
CONSTANT MaxIn = 2
INVARIANT RoundTrip
INVARIANT Consistent
INVARIANT PrintBack
CHECK_DEADLOCK FALSE
