SPECIFICATION Spec
CONSTANTS Kx = 1
          Ky = 2
          N = 2
          W = 1
          RuleSet = {"fill", "extend"}
INVARIANT ClosedFormOK
INVARIANT OffCornerRule
CHECK_DEADLOCK FALSE
