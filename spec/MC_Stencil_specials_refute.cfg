SPECIFICATION Spec
CONSTANTS MaxN = 2
          MaxN2 = 1
CONSTANT Vals <- ValsSpecial
INVARIANT InverseAlways
CHECK_DEADLOCK FALSE
