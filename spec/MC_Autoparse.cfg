SPECIFICATION Spec
CONSTANT MaxN = 4
INVARIANT Decodes
INVARIANT Injective
INVARIANT SgridBijective
CHECK_DEADLOCK FALSE
