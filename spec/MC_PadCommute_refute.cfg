SPECIFICATION Spec
CONSTANTS MaxN = 2
          MaxW = 1
          Guarded = FALSE
INVARIANT Commutes
CHECK_DEADLOCK FALSE
