--------------------------- MODULE MC_Conservative ---------------------------
(* C07 on the specification: for every column of up to MaxN cells with target  *)
(* values in 0..T on its bounds and every strictly increasing bin set over 0..T,*)
(* the kernel's weights are admissible, conserve the column when it lies within *)
(* the span, are non-negative, add up under merging of adjacent bins, and the   *)
(* reversed bin order only reverses the row.  HalfOpen = FALSE is the kernel as *)
(* pinned (a homogeneous cell on an interior edge is counted twice): refuted.   *)
EXTENDS Conservative, TLC
CONSTANTS MaxN, T, HalfOpen

IncSeqs == {s \in UNION {[1..k -> 0..T] : k \in 2..(T + 1)} : \A q \in 1..(Len(s) - 1) : s[q] < s[q + 1]}
VARIABLES theta, bins, phase, W
vars == <<theta, bins, phase, W>>
Init == /\ theta \in UNION {[1..(n + 1) -> 0..T] : n \in 1..MaxN}
        /\ bins \in IncSeqs /\ phase = "call" /\ W = <<>>
Run == /\ phase = "call" /\ phase' = "done"
       /\ W' = [c \in 1..(Len(theta) - 1) |-> [j \in 1..NBins(bins) |->
                  KernelW(theta[c], theta[c + 1], bins[j], bins[j + 1], j = NBins(bins), HalfOpen)]]
       /\ UNCHANGED <<theta, bins>>
Spec == Init /\ [][Run]_vars

Admissible == phase = "done" => \A c \in DOMAIN W : CellOK(theta[c], theta[c + 1], bins, W[c])
NonNegative == phase = "done" => \A c \in DOMAIN W : \A j \in DOMAIN W[c] : W[c][j][1] >= 0 /\ W[c][j][2] > 0
\* a column within the span keeps every cell whole: weights of each cell sum to one
Conserves == (phase = "done" /\ \A q \in DOMAIN theta : InSpan(theta[q], bins)) =>
   \A c \in DOMAIN W : LET den == IF theta[c] = theta[c + 1] THEN 1 ELSE Max2(theta[c], theta[c + 1]) - Min2(theta[c], theta[c + 1])
                       IN SumNum(W[c], 1) = den
\* merging bins j and j+1 adds their weights
Drop(s, j) == [q \in 1..(Len(s) - 1) |-> IF q < j THEN s[q] ELSE s[q + 1]]
Merges == phase = "done" => \A j \in 2..NBins(bins) :     \* remove interior edge j
   LET mb == Drop(bins, j) IN
   \A c \in DOMAIN W :
     LET mw == KernelW(theta[c], theta[c + 1], mb[j - 1], mb[j], j - 1 = NBins(mb), HalfOpen) IN
     \* mw = W[c][j-1] + W[c][j] as rationals (the denominators may differ: an empty overlap is 0/1)
     mw[1] * (W[c][j - 1][2] * W[c][j][2]) = (W[c][j - 1][1] * W[c][j][2] + W[c][j][1] * W[c][j - 1][2]) * mw[2]
=============================================================================
