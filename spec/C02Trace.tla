------------------------------ MODULE C02Trace ------------------------------
(* Trace validation for C02: constructor resolution of periodic / boundary /    *)
(* fill_value into per-axis settings, and xgcm.padding.pad on a simple grid.    *)
EXTENDS Calls, Json, IOUtils, TLC, FiniteSetsExt

Tr == ndJsonDeserialize(IOEnv.TRACE_FILE)
VARIABLE i

Arr0(x) == [shape |-> x.shape, flat |-> x.flat]

\* ---- Construct: observed settings are pairs <<axis, rule, fill>>
VConstruct(r) ==
  LET axes == {r.grid.axes[k].name : k \in DOMAIN r.grid.axes}
      defined == \A ax \in axes : PeriodicDefined(r.grid.ctor.periodic, ax)
  IN IF ~defined THEN "ok"                      \* a periodic mapping omitting an axis: outside the statement
     ELSE IF r.out.k # "settings" THEN "raised-on-valid-constructor"
     ELSE IF \E k \in DOMAIN r.out.v : r.out.v[k][2] # GridRule(r.grid.ctor, r.out.v[k][1]) THEN "grid-rule"
     ELSE IF \E k \in DOMAIN r.out.v : r.out.v[k][3] # GridFill(r.grid.ctor, r.out.v[k][1]) THEN "grid-fill"
     ELSE IF {r.out.v[k][1] : k \in DOMAIN r.out.v} # axes THEN "axes"
     ELSE "ok"

\* ---- Pad: widths = sequence of <<axis, lo, hi>> in the order given by the caller
PadStep(r, a, dims, w) ==
  LET ax == AxisOf(r.grid, w[1])
      d == IndexOf(dims, DimOfPos(ax, ThePos(ax, dims)))
  IN PadDim(a, d, w[2], w[3], RuleInForce(r.grid.ctor, r.args.boundary, w[1]),
            FillInForce(r.grid.ctor, r.args.fill_value, w[1]))
RECURSIVE PadSeq(_, _, _, _, _)
PadSeq(r, a, dims, ws, k) == IF k > Len(ws) THEN a ELSE PadSeq(r, PadStep(r, a, dims, ws[k]), dims, ws, k + 1)

\* all orders in which the padded axes can be taken (cells in the halo of two axes at once may depend on it
\* when the axes use different rules; the property constrains them only up to that choice)
Perms(ws) == {p \in [DOMAIN ws -> DOMAIN ws] : \A x, y \in DOMAIN ws : x # y => p[x] # p[y]}
Reorder(ws, p) == [k \in DOMAIN ws |-> ws[p[k]]]

\* is idx in the halo of at most one padded axis?
InteriorAlong(r, dims, w, idx, shape) ==
  LET ax == AxisOf(r.grid, w[1])
      d == IndexOf(dims, DimOfPos(ax, ThePos(ax, dims)))
  IN idx[d] >= w[2] /\ idx[d] < shape[d] - w[3]
HaloCount(r, dims, ws, idx, shape) == Cardinality({k \in DOMAIN ws : ~InteriorAlong(r, dims, ws[k], idx, shape)})

VPad(r) ==
  IF r.out.k # "array" THEN "raised-on-valid-call"
  ELSE LET a == Arr0(r.args.data)
           dims == r.args.data.dims
           ws == r.args.widths
           e == PadSeq(r, a, dims, ws, 1)
       IN IF r.out.dims # dims THEN "dims"
          ELSE IF r.out.shape # e.shape THEN "shape"
          ELSE IF r.out.flat = e.flat THEN "ok"
          ELSE IF \E k \in 1..Size(e.shape) :
                     HaloCount(r, dims, ws, Unravel(e.shape, k - 1), e.shape) <= 1 /\ r.out.flat[k] # e.flat[k]
               THEN "values"
          ELSE IF \E p \in Perms(ws) : r.out.flat = PadSeq(r, a, dims, Reorder(ws, p), 1).flat THEN "ok"
          ELSE "corner-values"

Verdict(r) == CASE r.ev = "Construct" -> VConstruct(r)
                [] r.ev = "Pad" -> VPad(r)
                [] OTHER -> "unknown-event"

Init == i = 1
Next == /\ i <= Len(Tr)
        /\ LET v == Verdict(Tr[i]) IN IF v = "ok" THEN TRUE ELSE PrintT(<<"V", Tr[i].id, v>>)
        /\ i' = i + 1
Spec == Init /\ [][Next]_i
=============================================================================
