------------------------------ MODULE C20Trace ------------------------------
(* Trace validation for C20: a request in one of the ill-posed classes must     *)
(* raise; it must never come back as an array.                                  *)
EXTENDS Errors, Json, IOUtils, TLC
Tr == ndJsonDeserialize(IOEnv.TRACE_FILE)
VARIABLE i

VIll(r) == LET c == IllClass(r) IN
  IF c = "none" THEN (IF r.out.k = "array" THEN "ok" ELSE "ok")        \* well-posed calls are the other properties' subject
  ELSE IF r.out.k = "array" THEN c ELSE "ok"
VTransform(r) == LET c == TransformClass(r.t) IN
  IF c = "none" THEN "ok" ELSE IF r.out.k = "array" THEN c ELSE "ok"
\* classes observed, for the evidence (printed once per ill-posed record)
Verdict(r) == CASE r.ev = "Ill" -> VIll(r) [] r.ev = "TransformIll" -> VTransform(r) [] OTHER -> "unknown-event"
ClassOf(r) == CASE r.ev = "Ill" -> IllClass(r) [] r.ev = "TransformIll" -> TransformClass(r.t) [] OTHER -> "none"
Init == i = 1
Next == /\ i <= Len(Tr)
        /\ LET v == Verdict(Tr[i]) IN IF v = "ok" THEN TRUE ELSE PrintT(<<"V", Tr[i].id, v>>)
        /\ LET c == ClassOf(Tr[i]) IN IF c = "none" THEN TRUE ELSE PrintT(<<"C", Tr[i].id, c>>)
        /\ i' = i + 1
Spec == Init /\ [][Next]_i
=============================================================================
