SPECIFICATION Spec
CONSTANTS Guarded = FALSE
INVARIANT LandsOnLike
CHECK_DEADLOCK FALSE
