SPECIFICATION Spec
CONSTANTS MaxN = 3
          T = 4
          HalfOpen = TRUE
INVARIANT Admissible
INVARIANT NonNegative
INVARIANT Conserves
INVARIANT Merges
CHECK_DEADLOCK FALSE
