------------------------------ MODULE C16Trace ------------------------------
(* Trace validation for C16: every recorded registration step (registry before, *)
(* call, outcome, registry after, get_metric answers) must be a step of the     *)
(* registry state machine of Metrics.tla.                                       *)
EXTENDS Metrics, Json, IOUtils, TLC

Tr == ndJsonDeserialize(IOEnv.TRACE_FILE)
VARIABLE i

Keys(r) == {r.pool[j][2] : j \in DOMAIN r.pool}
SlotFn(r) == [v \in {r.pool[j][1] : j \in DOMAIN r.pool} |-> Lookup([j \in DOMAIN r.pool |-> <<r.pool[j][1], r.pool[j][3]>>], v, "none")]
RegFn(r, pairs) == [k \in Keys(r) |-> Lookup(pairs, k, <<>>)]
AsSets(reg) == [k \in DOMAIN reg |-> SeqToSet(reg[k])]

GmBad(r, post, SlotOf) ==
  \E j \in DOMAIN r.gm :
     LET g == r.gm[j]                       \* <<key, slot, kind, var>>
         occ == Occupant(post, SlotOf, g[1], g[2]) IN
     IF occ # {} THEN ~(g[3] = "exact" /\ g[4] \in occ)
     ELSE IF post[g[1]] # <<>> THEN ~((g[3] = "interp" /\ g[4] \in SeqToSet(post[g[1]])) \/ g[3] = "undefined-shift")
     ELSE FALSE

VStep(r) ==
  LET SlotOf == SlotFn(r)
      pre == RegFn(r, r.pre)
      post == RegFn(r, r.post)
      e == SetMetricsSpec(pre, SlotOf, r.call.k, r.call.vs, r.call.ow)
  IN IF r.out.k = "error" THEN "raised-unexpected-exception"
     ELSE IF e.refused # (r.out.k = "refused") THEN (IF e.refused THEN "accepted-into-occupied-slot" ELSE "refused-free-slot")
     ELSE IF ~OneVarPerSlot(post, SlotOf) THEN "two-variables-in-one-slot"
     ELSE IF AsSets(post) # AsSets(e.reg) THEN "registry"
     ELSE IF GmBad(r, post, SlotOf) THEN "get-metric"
     ELSE "ok"

\* a call that names nothing registrable (axes the grid lacks, or only a variable the dataset lacks) registers
\* nothing: it is refused with an exception and every slot holds what it held
VIll(r) ==
  LET SlotOf == SlotFn(r)
      pre == RegFn(r, r.pre)
      post == RegFn(r, r.post)
  IN IF r.out.k = "ok" THEN "unregistrable-call-accepted"
     ELSE IF AsSets(post) # AsSets(pre) THEN "refused-call-changed-the-registry"
     ELSE IF GmBad(r, post, SlotOf) THEN "get-metric"
     ELSE "ok"

\* a constructor given several `metrics=` entries (the same axis set may be spelt in two ways: a string or a
\* one-tuple, a tuple or its permutation) registers them one after another, in the order of the mapping, without
\* overwrite: a refusal anywhere refuses the construction, otherwise the registry is the one the sequence gives
RECURSIVE CtorFold(_, _, _, _)
CtorFold(reg, SlotOf, calls, j) ==
  IF j > Len(calls) THEN [reg |-> reg, refused |-> FALSE]
  ELSE LET st == SetMetricsSpec(reg, SlotOf, calls[j].k, calls[j].vs, FALSE) IN
       IF st.refused THEN st ELSE CtorFold(st.reg, SlotOf, calls, j + 1)
VCtor(r) ==
  LET SlotOf == SlotFn(r)
      post == RegFn(r, r.post)
      e == CtorFold(RegFn(r, <<>>), SlotOf, r.calls, 1)
  IN IF r.out.k = "error" THEN "raised-unexpected-exception"
     ELSE IF e.refused # (r.out.k = "refused") THEN (IF e.refused THEN "accepted-into-occupied-slot" ELSE "refused-free-slot")
     ELSE IF e.refused THEN "ok"
     ELSE IF ~OneVarPerSlot(post, SlotOf) THEN "two-variables-in-one-slot"
     ELSE IF AsSets(post) # AsSets(e.reg) THEN "registry"
     ELSE IF GmBad(r, post, SlotOf) THEN "get-metric"
     ELSE "ok"

Verdict(r) == CASE r.ev = "SetMetrics" -> VStep(r) [] r.ev = "CtorBatch" -> VCtor(r) [] r.ev = "SetMetricsIll" -> VIll(r) [] OTHER -> "unknown-event"
Init == i = 1
Next == /\ i <= Len(Tr)
        /\ LET v == Verdict(Tr[i]) IN IF v = "ok" THEN TRUE ELSE PrintT(<<"V", Tr[i].id, v>>)
        /\ i' = i + 1
Spec == Init /\ [][Next]_i
=============================================================================
