SPECIFICATION Spec
CONSTANTS N = 5
          Lo = 1
          Hi = 1
          ClampToNeighbour = TRUE
INVARIANT Lazy
INVARIANT ResultOK
INVARIANT ChunksOK
CHECK_DEADLOCK FALSE
