---------------------------- MODULE LinearInterp ----------------------------
(* C08.  Piecewise-linear interpolation of phi against a strictly monotonic     *)
(* profile theta (either direction), as exact rationals <<num, den>>; <<0, 0>>  *)
(* stands for NaN.  All of theta and the target levels are integers (the        *)
(* drivers double half-integer levels).                                          *)
EXTENDS Integers, Sequences, FiniteSets

StrictInc(s) == \A q \in 1..(Len(s) - 1) : s[q] < s[q + 1]
StrictDec(s) == \A q \in 1..(Len(s) - 1) : s[q] > s[q + 1]
NaN == <<0, 0>>
RatEq(a, b) == IF b[2] = 0 THEN a[2] = 0 ELSE a[2] # 0 /\ a[1] * b[2] = b[1] * a[2]

ThMin(theta) == IF theta[1] < theta[Len(theta)] THEN theta[1] ELSE theta[Len(theta)]
ThMax(theta) == IF theta[1] < theta[Len(theta)] THEN theta[Len(theta)] ELSE theta[1]
\* value at the end of the profile where theta is smallest / largest
PhiAtMin(theta, phi) == IF theta[1] < theta[Len(theta)] THEN phi[1] ELSE phi[Len(phi)]
PhiAtMax(theta, phi) == IF theta[1] < theta[Len(theta)] THEN phi[Len(phi)] ELSE phi[1]

\* the segment k (between points k and k+1) whose theta interval contains t
Segment(theta, t) == CHOOSE k \in 1..(Len(theta) - 1) :
   (theta[k] <= t /\ t <= theta[k + 1]) \/ (theta[k + 1] <= t /\ t <= theta[k])

\* a missing data value is carried as the distinguished integer NaNv: the interpolant is missing strictly inside a
\* segment with a missing end and takes the data value itself AT a point of the profile, whatever its neighbours hold
NaNv == 2147483641
PhiRat(v) == IF v = NaNv THEN NaN ELSE <<v, 1>>
InterpAt(theta, phi, t, mask) ==
  IF t < ThMin(theta) THEN (IF mask THEN NaN ELSE PhiRat(PhiAtMin(theta, phi)))
  ELSE IF t > ThMax(theta) THEN (IF mask THEN NaN ELSE PhiRat(PhiAtMax(theta, phi)))
  ELSE IF \E k \in DOMAIN theta : theta[k] = t THEN PhiRat(phi[CHOOSE k \in DOMAIN theta : theta[k] = t])
  ELSE LET k == Segment(theta, t)
           dt == theta[k + 1] - theta[k]
           num == phi[k] * dt + (phi[k + 1] - phi[k]) * (t - theta[k])
       IN IF phi[k] = NaNv \/ phi[k + 1] = NaNv THEN NaN
          ELSE IF dt > 0 THEN <<num, dt>> ELSE <<-num, -dt>>

Rev(s) == [k \in DOMAIN s |-> s[Len(s) + 1 - k]]
=============================================================================
