---------------------------- MODULE LinearInterp ----------------------------
(* C08.  Piecewise-linear interpolation of phi against a strictly monotonic     *)
(* profile theta (either direction), as exact rationals <<num, den>>; <<0, 0>>  *)
(* stands for NaN.  All of theta and the target levels are integers (the        *)
(* drivers double half-integer levels).                                          *)
EXTENDS Integers, Sequences, FiniteSets

StrictInc(s) == \A q \in 1..(Len(s) - 1) : s[q] < s[q + 1]
StrictDec(s) == \A q \in 1..(Len(s) - 1) : s[q] > s[q + 1]
NaN == <<0, 0>>
RatEq(a, b) == IF b[2] = 0 THEN a[2] = 0 ELSE a[2] # 0 /\ a[1] * b[2] = b[1] * a[2]

ThMin(theta) == IF theta[1] < theta[Len(theta)] THEN theta[1] ELSE theta[Len(theta)]
ThMax(theta) == IF theta[1] < theta[Len(theta)] THEN theta[Len(theta)] ELSE theta[1]
\* value at the end of the profile where theta is smallest / largest
PhiAtMin(theta, phi) == IF theta[1] < theta[Len(theta)] THEN phi[1] ELSE phi[Len(phi)]
PhiAtMax(theta, phi) == IF theta[1] < theta[Len(theta)] THEN phi[Len(phi)] ELSE phi[1]

\* the segment k (between points k and k+1) whose theta interval contains t
Segment(theta, t) == CHOOSE k \in 1..(Len(theta) - 1) :
   (theta[k] <= t /\ t <= theta[k + 1]) \/ (theta[k + 1] <= t /\ t <= theta[k])

InterpAt(theta, phi, t, mask) ==
  IF t < ThMin(theta) THEN (IF mask THEN NaN ELSE <<PhiAtMin(theta, phi), 1>>)
  ELSE IF t > ThMax(theta) THEN (IF mask THEN NaN ELSE <<PhiAtMax(theta, phi), 1>>)
  ELSE LET k == Segment(theta, t)
           dt == theta[k + 1] - theta[k]
           num == phi[k] * dt + (phi[k + 1] - phi[k]) * (t - theta[k])
       IN IF dt > 0 THEN <<num, dt>> ELSE <<-num, -dt>>

Rev(s) == [k \in DOMAIN s |-> s[Len(s) + 1 - k]]
=============================================================================
