------------------------------- MODULE Arr -------------------------------
(* N-dimensional arrays as [shape |-> <<n1,...,nk>>, flat |-> <<v_1,...>>] in     *)
(* row-major (C) order, 0-based multi-indices.  All values are integers (the     *)
(* drivers scale halves away) or the string "nan" where a module says so.        *)
EXTENDS Naturals, Integers, Sequences, FiniteSets

RECURSIVE Prod(_)
Prod(s) == IF s = <<>> THEN 1 ELSE Head(s) * Prod(Tail(s))

Size(shape) == Prod(shape)

\* stride of dimension d (1-based) in a row-major layout
RECURSIVE StrideFrom(_, _)
StrideFrom(shape, d) == IF d >= Len(shape) THEN 1 ELSE shape[d + 1] * StrideFrom(shape, d + 1)

\* flat offset (0-based) of multi-index idx (sequence of 0-based ints)
RECURSIVE RavelFrom(_, _, _)
RavelFrom(shape, idx, d) ==
  IF d > Len(shape) THEN 0 ELSE idx[d] * StrideFrom(shape, d) + RavelFrom(shape, idx, d + 1)
Ravel(shape, idx) == RavelFrom(shape, idx, 1)

\* multi-index of flat offset k (0-based)
Unravel(shape, k) == [d \in 1..Len(shape) |-> (k \div StrideFrom(shape, d)) % shape[d]]

Get(a, idx) == a.flat[Ravel(a.shape, idx) + 1]

\* Build(shape, F): array whose element at idx is F(idx)
Build(shape, F(_)) == [shape |-> shape, flat |-> [k \in 1..Size(shape) |-> F(Unravel(shape, k - 1))]]

WellFormed(a) == Len(a.flat) = Size(a.shape)

\* position (1-based) of element x in sequence s, 0 if absent
RECURSIVE IndexOfFrom(_, _, _)
IndexOfFrom(s, x, k) == IF k > Len(s) THEN 0 ELSE IF s[k] = x THEN k ELSE IndexOfFrom(s, x, k + 1)
IndexOf(s, x) == IndexOfFrom(s, x, 1)

SeqToSet(s) == {s[k] : k \in DOMAIN s}

\* transpose: newdims is a permutation of dims (both sequences of names)
Transpose(a, dims, newdims) ==
  LET perm == [d \in 1..Len(newdims) |-> IndexOf(dims, newdims[d])]      \* new axis d is old axis perm[d]
      nshape == [d \in 1..Len(newdims) |-> a.shape[perm[d]]]
  IN Build(nshape, LAMBDA idx : Get(a, [od \in 1..Len(dims) |-> idx[IndexOf(newdims, dims[od])]]))

\* value of a along dimension d at (possibly out of range) index i, the rest of idx fixed,
\* under a boundary rule: "fill" (constant), "extend" (nearest), "periodic" (wrap)
Mod(x, m) == ((x % m) + m) % m
AtRule(a, idx, d, i, rule, fill) ==
  LET L == a.shape[d] IN
  IF i >= 0 /\ i < L THEN Get(a, [idx EXCEPT ![d] = i])
  ELSE CASE rule = "fill" -> fill
         [] rule = "extend" -> Get(a, [idx EXCEPT ![d] = IF i < 0 THEN 0 ELSE L - 1])
         [] rule = "periodic" -> Get(a, [idx EXCEPT ![d] = Mod(i, L)])

\* pad along dimension d by (lo, hi) under a rule
PadDim(a, d, lo, hi, rule, fill) ==
  Build([a.shape EXCEPT ![d] = a.shape[d] + lo + hi],
        LAMBDA idx : AtRule(a, idx, d, idx[d] - lo, rule, fill))

\* lookup in a sequence of <<key, value>> pairs; dflt if absent
RECURSIVE LookupFrom(_, _, _, _)
LookupFrom(pairs, key, dflt, k) ==
  IF k > Len(pairs) THEN dflt ELSE IF pairs[k][1] = key THEN pairs[k][2] ELSE LookupFrom(pairs, key, dflt, k + 1)
Lookup(pairs, key, dflt) == LookupFrom(pairs, key, dflt, 1)
HasKey(pairs, key) == \E k \in DOMAIN pairs : pairs[k][1] = key
=============================================================================
