---------------------------- MODULE SessionTrace ----------------------------
(* Stateful trace validation of whole sessions against Session.tla: the trace   *)
(* spec carries the metric registry and the store of named arrays from record   *)
(* to record.  A call is judged with the registry as the SPECIFICATION has it   *)
(* after the preceding set_metrics calls and with the stored input array.       *)
EXTENDS Session, Json, IOUtils
Tr == ndJsonDeserialize(IOEnv.TRACE_FILE)
VARIABLES i, reg, store, pool

SlotFn(p) == [v \in {p[j][1] : j \in DOMAIN p} |-> Lookup([j \in DOMAIN p |-> <<p[j][1], p[j][2]>>], v, "none")]
ValFn(p) == [v \in {p[j][1] : j \in DOMAIN p} |-> Lookup([j \in DOMAIN p |-> <<p[j][1], p[j][3]>>], v, <<>>)]

Verdict(r) ==
  CASE r.ev = "SessNew" -> "ok"
    [] r.ev = "SessPut" -> "ok"
    [] r.ev = "SessSet" ->
         LET e == SetMetricsSpec(reg, SlotFn(pool), "X", r.call.vs, r.call.ow) IN
         IF r.out = "error" THEN "set_metrics-raised-unexpected-exception"
         ELSE IF e.refused # (r.out = "refused") THEN "set_metrics-refusal"
         ELSE IF SeqToSet(r.reg_after) # SeqToSet(e.reg["X"]) THEN "registry-after-set_metrics"
         ELSE "ok"
    [] r.ev = "SessCall" ->
         LET inp == store[r.inp]
             need == NeedsMetric(r.call, inp) IN
         IF \E p \in need : ~HasMetricAt(reg, SlotFn(pool), p) THEN "ok"         \* would need interpolation: C10's subject
         ELSE IF r.out.k # "array" THEN "raised-on-valid-call"
         ELSE LET e == Answer(r.call, reg, SlotFn(pool), ValFn(pool), inp) IN
              IF ~RSeqEq(r.out.v, e.v) THEN "answer-not-a-function-of-registry-and-arguments" ELSE "ok"
    [] OTHER -> "unknown-event"

Init == i = 1 /\ reg = [k \in {"X"} |-> <<>>] /\ store = [n \in {} |-> <<>>] /\ pool = <<>>
Next == /\ i <= Len(Tr)
        /\ LET r == Tr[i]  v == Verdict(r) IN
           /\ IF v = "ok" THEN TRUE ELSE PrintT(<<"V", r.id, v>>)
           /\ pool' = IF r.ev = "SessNew" THEN r.pool ELSE pool
           /\ reg' = CASE r.ev = "SessNew" -> [k \in {"X"} |-> <<>>]
                       [] r.ev = "SessSet" -> [k \in {"X"} |-> r.reg_after]       \* continue from what the code holds
                       [] OTHER -> reg
           /\ store' = CASE r.ev = "SessNew" -> [n \in {} |-> <<>>]
                         [] r.ev = "SessPut" -> [n \in DOMAIN store \cup {r.name} |-> IF n = r.name THEN [pos |-> r.pos, v |-> r.v] ELSE store[n]]
                         [] r.ev = "SessCall" /\ r.out.k = "array" ->
                              [n \in DOMAIN store \cup {r.out_name} |-> IF n = r.out_name THEN [pos |-> r.out.pos, v |-> r.out.v] ELSE store[n]]
                         [] OTHER -> store
        /\ i' = i + 1
Spec == Init /\ [][Next]_<<i, reg, store, pool>>
=============================================================================
