SPECIFICATION Spec
CONSTANTS Kx = 2
          Ky = 2
          N = 2
          W = 1
INVARIANT NeverAllKinds
CHECK_DEADLOCK FALSE
