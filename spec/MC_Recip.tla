------------------------------ MODULE MC_Recip ------------------------------
(* C17 on the specification: all 625 link tables over two faces and one axis,  *)
(* connected by single-slot edits.  The code-shaped check (look up the         *)
(* neighbour's slot chosen by the reverse flag, compare face / axis / flag)    *)
(* accepts exactly the reciprocal tables.                                      *)
EXTENDS FaceTopology, SequencesExt, TLC

Slots == {<<f, sd>> : f \in {0, 1}, sd \in {0, 1}}
Vals == {<<-1, FALSE>>} \cup {<<g, rv>> : g \in {0, 1}, rv \in BOOLEAN}      \* <<-1,..>> = no link
VARIABLE tab
Init == tab \in [Slots -> Vals]
Edit(s, v) == tab' = [tab EXCEPT ![s] = v]
Next == \E s \in Slots, v \in Vals : Edit(s, v)
Spec == Init /\ [][Next]_tab

Entries == SetToSeq({<<s[1], "a1", s[2], tab[s][1], "a1", tab[s][2]>> : s \in {t \in Slots : tab[t][1] # -1}})

\* as coded in Grid._assign_face_connections.check_neighbor
ImplAccepts == \A s \in Slots : tab[s][1] = -1 \/
   LET idx == tab[s][1]  rev == tab[s][2]
       position == 1 - s[2]                       \* check_neighbor(link_left, 1), check_neighbor(link_right, 0)
       correct == IF rev THEN 1 - position ELSE position
       nb == tab[<<idx, correct>>]
   IN nb[1] # -1 /\ nb[1] = s[1] /\ nb[2] = rev
Agree == ImplAccepts <=> Reciprocal(Entries, 2, {"a1"})
\* non-vacuity: some table is accepted, some is rejected
NeverAccepted == ~ImplAccepts
NeverRejected == ImplAccepts \/ Entries = <<>>
=============================================================================
