---------------------------- MODULE MC_Autoparse ----------------------------
(* The COMODO table decodes every admissible annotation of every position set  *)
(* (containing the centre) back to that position set; distinct positions never *)
(* share an annotation; the SGRID table is a bijection between the four padding *)
(* words and the four face positions.                                           *)
EXTENDS Autoparse, TLC
CONSTANTS MaxN
PosAll == {"center", "left", "right", "inner", "outer"}
VARIABLES n, present, enc, phase, decoded
vars == <<n, present, enc, phase, decoded>>
Init == /\ n \in 2..MaxN /\ present \in {S \in SUBSET PosAll : "center" \in S}
        /\ enc \in [present -> (0..(MaxN + 1)) \X {"none", "neg", "pos"}]
        /\ \A p \in present : enc[p] \in ComodoEncodings(p, n)
        /\ phase = "annotated" /\ decoded = <<>>
ParseIt == /\ phase = "annotated" /\ phase' = "parsed"
           /\ decoded' = [p \in present |-> ComodoPos(n, enc[p][1], enc[p][2])]
           /\ UNCHANGED <<n, present, enc>>
Spec == Init /\ [][ParseIt]_vars
Decodes == phase = "parsed" => \A p \in present : decoded[p] = p
Injective == \A p, q \in PosAll : p # q => ComodoEncodings(p, n) \cap ComodoEncodings(q, n) = {}
SgridBijective == {SgridPos(w) : w \in {"high", "low", "both", "none"}} = PosAll \ {"center"}
                  /\ \A v, w \in {"high", "low", "both", "none"} : v # w => SgridPos(v) # SgridPos(w)
=============================================================================
