----------------------------- MODULE DaskChunks -----------------------------
(* C06 at design level.  An axis of N cells is split into chunks (a composition *)
(* of N).  Padding adds Lo / Hi cells in chunks of their own; the code merges   *)
(* them into the first / last chunk, gives every block Lo cells of its left     *)
(* neighbour and Hi of its right neighbour (dask map_overlap, no boundary, no   *)
(* trimming), runs the window function on each block in ANY order, and declares *)
(* the output chunks equal to the input chunks.  Nothing is computed before     *)
(* Compute.  The window function is symbolic: F over Lo+Hi+1 consecutive cells. *)
EXTENDS Naturals, Integers, Sequences, FiniteSets, TLC
CONSTANTS N, Lo, Hi, ClampToNeighbour    \* ClampToNeighbour: dask can hand over at most the neighbour's extent

RECURSIVE SumSeq(_)
SumSeq(s) == IF s = <<>> THEN 0 ELSE Head(s) + SumSeq(Tail(s))
RECURSIVE Compositions(_)
Compositions(n) == IF n = 0 THEN {<<>>} ELSE UNION {{<<k>> \o c : c \in Compositions(n - k)} : k \in 1..n}
Min(a, b) == IF a < b THEN a ELSE b
W == Lo + Hi + 1
\* padded array cells are 1..Lo+N+Hi; the eager result: one window per start position
Window(j) == [k \in 1..W |-> j + k - 1]
Eager == [j \in 1..(Lo + N + Hi - W + 1) |-> Window(j)]

VARIABLES chunks, phase, blocks, done, out, computes
vars == <<chunks, phase, blocks, done, out, computes>>

Merged == IF Len(chunks) = 1 THEN <<Lo + N + Hi>>
          ELSE [i \in 1..Len(chunks) |-> chunks[i] + (IF i = 1 THEN Lo ELSE 0) + (IF i = Len(chunks) THEN Hi ELSE 0)]
Start(m, b) == 1 + SumSeq(SubSeq(m, 1, b - 1))

Init == /\ chunks \in Compositions(N) /\ phase = "start" /\ blocks = <<>> /\ done = {} /\ out = <<>> /\ computes = 0
BuildGraph ==
  /\ phase = "start"
  /\ LET m == Merged  K == Len(m) IN
     blocks' = [b \in 1..K |->
        LET s == Start(m, b)  e == s + m[b] - 1
            l == IF b = 1 THEN 0 ELSE (IF ClampToNeighbour THEN Min(Lo, m[b - 1]) ELSE Lo)
            r == IF b = K THEN 0 ELSE (IF ClampToNeighbour THEN Min(Hi, m[b + 1]) ELSE Hi)
        IN <<s - l, e + r>>]
  /\ out' = [b \in 1..Len(Merged) |-> <<>>]
  /\ phase' = "lazy" /\ UNCHANGED <<chunks, done, computes>>
Compute == phase = "lazy" /\ phase' = "running" /\ computes' = computes + 1 /\ UNCHANGED <<chunks, blocks, done, out>>
RunTask(b) ==
  /\ phase = "running" /\ b \in DOMAIN blocks /\ b \notin done
  /\ out' = [out EXCEPT ![b] = [j \in 1..(blocks[b][2] - blocks[b][1] + 1 - W + 1) |-> Window(blocks[b][1] + j - 1)]]
  /\ done' = done \cup {b} /\ UNCHANGED <<chunks, phase, blocks, computes>>
Gather == phase = "running" /\ done = DOMAIN blocks /\ phase' = "done" /\ UNCHANGED <<chunks, blocks, done, out, computes>>
Next == BuildGraph \/ Compute \/ (\E b \in 1..N : RunTask(b)) \/ Gather
Spec == Init /\ [][Next]_vars

RECURSIVE Concat(_, _)
Concat(o, k) == IF k > Len(o) THEN <<>> ELSE o[k] \o Concat(o, k + 1)
Lazy == phase \in {"start", "lazy"} => computes = 0
ResultOK == phase = "done" => Concat(out, 1) = Eager
\* the declared output chunks (= the input chunks) are the true block lengths
ChunksOK == phase = "done" => [b \in DOMAIN out |-> Len(out[b])] =
              (IF Len(chunks) = 1 THEN <<Lo + N + Hi - W + 1>> ELSE chunks)
=============================================================================
