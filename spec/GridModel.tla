------------------------------ MODULE GridModel ------------------------------
(* Abstract description of a Grid as logged by the drivers, and helpers that   *)
(* read it: axes = sequence of [name, n, pos], pos = sequence of <<position,    *)
(* dimension name>> pairs; ctor = constructor arguments (see Boundary).         *)
EXTENDS Boundary, Positions

RECURSIVE AxisFrom(_, _, _)
AxisFrom(axes, name, k) == IF k > Len(axes) THEN [name |-> "none", n |-> 0, pos |-> <<>>]
                           ELSE IF axes[k].name = name THEN axes[k] ELSE AxisFrom(axes, name, k + 1)
AxisOf(grid, name) == AxisFrom(grid.axes, name, 1)
HasAxis(grid, name) == \E k \in DOMAIN grid.axes : grid.axes[k].name = name

PresentPos(ax) == {ax.pos[k][1] : k \in DOMAIN ax.pos}
DimOfPos(ax, p) == Lookup(ax.pos, p, "none")
AxisDims(ax) == {ax.pos[k][2] : k \in DOMAIN ax.pos}
\* positions of the axis whose dimension the array carries
PosIn(ax, dims) == {ax.pos[k][1] : k \in {j \in DOMAIN ax.pos : ax.pos[j][2] \in SeqToSet(dims)}}
ThePos(ax, dims) == CHOOSE p \in PosIn(ax, dims) : TRUE

\* default shift: user table for the axis (pairs <<from, to>>) first, documented fallback otherwise
UserShifts(ctor, axname) == IF ctor.default_shifts.k = "m" THEN Lookup(ctor.default_shifts.v, axname, <<>>) ELSE <<>>
ShiftDefault(ctor, ax, from) ==
  LET u == UserShifts(ctor, ax.name) IN
  IF HasKey(u, from) THEN Lookup(u, from, "none") ELSE DefaultShift(PresentPos(ax), from)

\* target position of a call: `to` is tagged none / scalar / per-axis mapping
ToOf(ctor, to, ax, from) == IF Given(to, ax.name) THEN ValueOf(to, ax.name) ELSE ShiftDefault(ctor, ax, from)

ReplaceDim(dims, old, new) == [k \in DOMAIN dims |-> IF dims[k] = old THEN new ELSE dims[k]]
=============================================================================
