SPECIFICATION Spec
CONSTANTS CallIds = {"c1", "c2", "c3", "c4", "c5"}
          Objects = {"o1", "o2", "o3"}
          MaxLen = 4
INVARIANT HistoryFree
PROPERTY Pure
CHECK_DEADLOCK FALSE
