------------------------------- MODULE Metrics -------------------------------
(* C16 / C10.  The metric registry as a state machine and the selection rule.   *)
(* A registry maps an axis-set key to a sequence of variable names; SlotOf(v)   *)
(* gives the (key, position tuple) slot a variable occupies (two variables are  *)
(* in the same slot when they are registered for the same axes and live on the  *)
(* same dimensions).                                                            *)
EXTENDS Arr

\* reg: function Keys -> Seq(Var).  SlotOf: function Var -> slot id.
Occupant(reg, SlotOf, k, s) == {v \in SeqToSet(reg[k]) : SlotOf[v] = s}
IndexOfSlot(seq, SlotOf, s) == CHOOSE j \in DOMAIN seq : SlotOf[seq[j]] = s

\* one variable: replace in place when the slot is occupied and overwrite is set, refuse when occupied
\* and not set, append otherwise
Register1(reg, SlotOf, k, v, ow) ==
  IF \E j \in DOMAIN reg[k] : SlotOf[reg[k][j]] = SlotOf[v]
  THEN IF ow THEN [reg |-> [reg EXCEPT ![k][IndexOfSlot(reg[k], SlotOf, SlotOf[v])] = v], refused |-> FALSE]
       ELSE [reg |-> reg, refused |-> TRUE]
  ELSE [reg |-> [reg EXCEPT ![k] = Append(reg[k], v)], refused |-> FALSE]

\* a call naming several variables = registering them one at a time, in order, stopping at a refusal
RECURSIVE SetMetricsFrom(_, _, _, _, _, _)
SetMetricsFrom(reg, SlotOf, k, vs, ow, j) ==
  IF j > Len(vs) THEN [reg |-> reg, refused |-> FALSE]
  ELSE LET s == Register1(reg, SlotOf, k, vs[j], ow) IN
       IF s.refused THEN s ELSE SetMetricsFrom(s.reg, SlotOf, k, vs, ow, j + 1)
SetMetricsSpec(reg, SlotOf, k, vs, ow) == SetMetricsFrom(reg, SlotOf, k, vs, ow, 1)

OneVarPerSlot(reg, SlotOf) == \A k \in DOMAIN reg : \A x, y \in DOMAIN reg[k] : x # y => SlotOf[reg[k][x]] # SlotOf[reg[k][y]]
=============================================================================
