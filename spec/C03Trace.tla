------------------------------ MODULE C03Trace ------------------------------
(* Trace validation for C03 and C04: operators on data cut into oriented faces  *)
(* must give, on every face, the operation on the undivided domain seen in the  *)
(* face's own frame.  The expectation is computed from the decomposition        *)
(* (orientations), never from the link table handed to the implementation;      *)
(* the table itself is re-derived and compared (guards the driver).             *)
EXTENDS FaceCalls, Stencil, SequencesExt, Json, IOUtils, TLC

Tr == ndJsonDeserialize(IOEnv.TRACE_FILE)
VARIABLE i

AxNoOf(r, a) == IF a = r.grid.faces.axes[1] THEN 1 ELSE 2
AxNameOf(r, x) == r.grid.faces.axes[x]
Orient(r) == [k \in DOMAIN r.decomp.orient |-> [s |-> r.decomp.orient[k][1], fx |-> r.decomp.orient[k][2], fy |-> r.decomp.orient[k][3]]]
KK(r) == <<r.decomp.K[1], r.decomp.K[2]>>
PP(r) == <<r.decomp.per[1], r.decomp.per[2]>>

DerivedEntries(r) ==
  {<<FaceNo(KK(r), b), AxNameOf(r, ax), sd, DLink(KK(r), PP(r), Orient(r), b, ax, sd).face,
     AxNameOf(r, DLink(KK(r), PP(r), Orient(r), b, ax, sd).axis), DLink(KK(r), PP(r), Orient(r), b, ax, sd).rev>> :
   <<b, ax, sd>> \in {t \in Blocks(KK(r)) \X {1, 2} \X {0, 1} : DLink(KK(r), PP(r), Orient(r), t[1], t[2], t[3]).face # -1}}
TableOK(r) == DerivedEntries(r) = {r.grid.faces.table[k] : k \in DOMAIN r.grid.faces.table}

\* local cell (i', j') of block B that holds global cell w
LocalOf(N, g, B, w) == CHOOSE ij \in (0..(N - 1)) \X (0..(N - 1)) :
                          Loc2Glob(N, g, ij[1], ij[2]) = <<w[1] - B[1] * N, w[2] - B[2] * N>>

\* value of array `a` (dims `dims`) at face f, local (ci, cj) along a1 / a2, other indices from idx
AtFace(r, a, dims, idx, f, ci, cj) ==
  LET dF == IndexOf(dims, r.grid.faces.dim)
      d1 == DimIdxOfAxis(r.grid, dims, r.grid.faces.axes[1])
      d2 == DimIdxOfAxis(r.grid, dims, r.grid.faces.axes[2])
  IN Get(a, [d \in DOMAIN dims |-> IF d = dF THEN f ELSE IF d = d1 THEN ci ELSE IF d = d2 THEN cj ELSE idx[d]])

\* ---------------------------------------------------------------- C03: scalar at cell centres
\* value of the undivided field at the face-local, possibly extended, centre index e along axis number x
ScalarAt(r, a, dims, idx, f, x, e, ci, cj, rule, fill) ==
  LET N == AxisOf(r.grid, r.grid.faces.axes[1]).n
      b == BlockOfFace(KK(r), f)
      li == IF x = 1 THEN e ELSE ci
      lj == IF x = 2 THEN e ELSE cj
  IN IF e >= 0 /\ e < N THEN AtFace(r, a, dims, idx, f, li, lj)
     ELSE LET w == Window(KK(r), N, PP(r), Orient(r), b, li, lj) IN
          IF w = <<-1, -1>>
          THEN CASE rule = "fill" -> fill
                 [] rule = "extend" -> AtFace(r, a, dims, idx, f, IF x = 1 THEN (IF e < 0 THEN 0 ELSE N - 1) ELSE ci,
                                                                   IF x = 2 THEN (IF e < 0 THEN 0 ELSE N - 1) ELSE cj)
                 [] rule = "periodic" -> AtFace(r, a, dims, idx, f, IF x = 1 THEN Mod(e, N) ELSE ci, IF x = 2 THEN Mod(e, N) ELSE cj)
          ELSE LET B == <<w[1] \div N, w[2] \div N>>
                   ij == LocalOf(N, Orient(r)[FaceNo(KK(r), B) + 1], B, w)
               IN AtFace(r, a, dims, idx, FaceNo(KK(r), B), ij[1], ij[2])

VFaceOp(r) ==
  IF ~TableOK(r) THEN "driver-table-mismatch"
  ELSE IF ~Expressible(KK(r), PP(r), Orient(r)) THEN "driver-not-expressible"
  ELSE IF r.out.k # "array" THEN "raised-on-valid-call"
  ELSE LET a == Arr0(r.args.data)
           dims == r.args.data.dims
           axn == r.args.axis[1]
           x == AxNoOf(r, axn)
           ax == AxisOf(r.grid, axn)
           N == ax.n
           from == ThePos(ax, dims)
           to == ToOf(r.grid.ctor, r.args.to, ax, from)
           d == IndexOf(dims, DimOfPos(ax, from))
           d1 == DimIdxOfAxis(r.grid, dims, r.grid.faces.axes[1])
           d2 == DimIdxOfAxis(r.grid, dims, r.grid.faces.axes[2])
           dF == IndexOf(dims, r.grid.faces.dim)
           rule == RuleInForce(r.grid.ctor, r.args.boundary, axn)
           fill == FillInForce(r.grid.ctor, r.args.fill_value, axn)
           odims == ReplaceDim(dims, DimOfPos(ax, from), DimOfPos(ax, to))
           oshape == [a.shape EXCEPT ![d] = PLen(to, N)]
           e == Build(oshape, LAMBDA idx :
                  LET c == Coord(to, idx[d]) IN
                  Comb(r.op, ScalarAt(r, a, dims, idx, idx[dF], x, IdxOf(from, c - 1), idx[d1], idx[d2], rule, fill),
                             ScalarAt(r, a, dims, idx, idx[dF], x, IdxOf(from, c + 1), idx[d1], idx[d2], rule, fill)))
       IN IF r.out.dims # odims THEN "dims"
          ELSE IF r.out.shape # oshape THEN "shape"
          ELSE IF r.out.flat # e.flat THEN "values" ELSE "ok"

\* ---------------------------------------------------------------- C04: C-grid vector components
\* The component along axis x of face f is stored at the low (left) or high (right) edge of each cell.
\* Its value beyond the array end is the value stored for the shared edge by the neighbouring face:
\* in the neighbour cell c' across the edge, the component along the neighbour's axis normal to that edge
\* (the same component or the partner), with the sign of the change of direction.
EdgeBeyond(r, a, pa, dims, pdims, idx, f, x, e, ci, cj, rule, fill) ==
  LET N == AxisOf(r.grid, r.grid.faces.axes[1]).n
      b == BlockOfFace(KK(r), f)
      li == IF x = 1 THEN e ELSE ci
      lj == IF x = 2 THEN e ELSE cj
      w == Window(KK(r), N, PP(r), Orient(r), b, li, lj)
  IN IF w = <<-1, -1>>
     THEN CASE rule = "fill" -> fill
            [] rule = "extend" -> AtFace(r, a, dims, idx, f, IF x = 1 THEN (IF e < 0 THEN 0 ELSE N - 1) ELSE ci,
                                                              IF x = 2 THEN (IF e < 0 THEN 0 ELSE N - 1) ELSE cj)
            [] rule = "periodic" -> AtFace(r, a, dims, idx, f, IF x = 1 THEN Mod(e, N) ELSE ci, IF x = 2 THEN Mod(e, N) ELSE cj)
     ELSE LET B == <<w[1] \div N, w[2] \div N>>
              gB == Orient(r)[FaceNo(KK(r), B) + 1]
              ij == LocalOf(N, gB, B, w)
              mydir == AxisDir(Orient(r)[f + 1], x)
              bx == CHOOSE y \in {1, 2} : AxisDir(gB, y)[1] = mydir[1]
              sgn == IF AxisDir(gB, bx)[2] = mydir[2] THEN 1 ELSE -1
              \* partner array indices: extra dims by name
              pidx == [q \in DOMAIN pdims |-> IF pdims[q] \in SeqToSet(dims) THEN idx[IndexOf(dims, pdims[q])] ELSE 0]
              val == IF bx = x THEN AtFace(r, a, dims, idx, FaceNo(KK(r), B), ij[1], ij[2])
                     ELSE AtFace(r, pa, pdims, pidx, FaceNo(KK(r), B), ij[1], ij[2])
          IN IF val = NaNv THEN NaNv ELSE sgn * val

VFaceVecN(r, resname) ==
  IF ~TableOK(r) THEN "driver-table-mismatch"
  ELSE IF r.out.k # "array" THEN "raised-on-valid-call"
  ELSE LET a == Arr0(r.args.data)
           pa == Arr0(r.args.other)
           dims == r.args.data.dims
           pdims == r.args.other.dims
           axn == r.args.axis[1]
           x == AxNoOf(r, axn)
           ax == AxisOf(r.grid, axn)
           N == ax.n
           from == ThePos(ax, dims)
           d == IndexOf(dims, DimOfPos(ax, from))
           d1 == DimIdxOfAxis(r.grid, dims, r.grid.faces.axes[1])
           d2 == DimIdxOfAxis(r.grid, dims, r.grid.faces.axes[2])
           dF == IndexOf(dims, r.grid.faces.dim)
           rule == RuleInForce(r.grid.ctor, r.args.boundary, axn)
           fill == FillInForce(r.grid.ctor, r.args.fill_value, axn)
           odims == ReplaceDim(dims, DimOfPos(ax, from), DimOfPos(ax, "center"))
           ValAt(idx, e) == IF e >= 0 /\ e < N THEN AtFace(r, a, dims, idx, idx[dF], IF x = 1 THEN e ELSE idx[d1], IF x = 2 THEN e ELSE idx[d2])
                            ELSE EdgeBeyond(r, a, pa, dims, pdims, idx, idx[dF], x, e, idx[d1], idx[d2], rule, fill)
           e == Build(a.shape, LAMBDA idx :
                  LET c == Coord("center", idx[d]) IN
                  Comb(r.op, ValAt(idx, IdxOf(from, c - 1)), ValAt(idx, IdxOf(from, c + 1))))
       IN IF r.out.dims # odims THEN "dims"
          ELSE IF r.out.shape # a.shape THEN "shape"
          ELSE IF r.out.flat # e.flat THEN "values"
          ELSE IF r.out.name # resname THEN "result-not-named-after-the-input" ELSE "ok"
VFaceVec(r) == VFaceVecN(r, "v1")

\* diff_2d_vector / interp_2d_vector: a dictionary {axis: component} in, a dictionary with the same keys in the
\* same order out; the entry of an axis is the one-component call along that axis with the other entry as partner
VVec2D(r) ==
  IF r.out.k # "array" \/ r.outb.k # "array" THEN "raised-on-valid-call"
  ELSE IF r.keys # <<r.args.axis[1], r.args.axisb[1]>> THEN "result-keys"
  ELSE LET va == VFaceVecN(r, "v1")
           rb == [r EXCEPT !.args = [r.args EXCEPT !.data = r.args.other, !.other = r.args.data, !.axis = r.args.axisb], !.out = r.outb]
           vb == VFaceVecN(rb, "v2")
       IN IF va # "ok" THEN "first-" \o va ELSE IF vb # "ok" THEN "second-" \o vb ELSE "ok"

\* on a grid without face connections {axis: u} must behave exactly as u alone (validated by C01's geometry)
VVecPlain(r) ==
  IF r.out.k # "array" THEN "vector-form-raised"
  ELSE IF r.out2.k # "array" THEN "raised-on-valid-call"
  ELSE IF r.out.dims # r.out2.dims \/ r.out.flat # r.out2.flat \/ r.out.shape # r.out2.shape THEN "vector-differs-from-scalar"
  ELSE "ok"

Verdict(r) == CASE r.ev = "FaceOp" -> VFaceOp(r)
                [] r.ev = "FaceVec" -> VFaceVec(r)
                [] r.ev = "VecPlain" -> VVecPlain(r)
                [] r.ev = "Vec2D" -> VVec2D(r)
                [] OTHER -> "unknown-event"

Init == i = 1
Next == /\ i <= Len(Tr)
        /\ LET v == Verdict(Tr[i]) IN IF v = "ok" THEN TRUE ELSE PrintT(<<"V", Tr[i].id, v>>)
        /\ i' = i + 1
Spec == Init /\ [][Next]_i
=============================================================================
