--------------------------- MODULE MC_InterpLike ---------------------------
(* Theorems about Grid.interp_like at the level of positions (X01Trace.tla), checked  *)
(* by TLC for every grid of one or two axes over every set of positions that contains *)
(* the centre, every position (or absence) of `array` and of `like` on each axis:     *)
(*   LandsOnLike   after the call the array stands, on every axis both arrays have,   *)
(*                 where `like` stands - provided the shifts are among the eight an    *)
(*                 axis can make (Guarded); without that proviso the claim is refuted  *)
(*                 (left -> right is not a shift: the call raises, C20);               *)
(*   Idempotent    applying it again changes nothing (no axis is left to move);        *)
(*   OthersAlone   dimensions of axes only one of the two has are left as they are;    *)
(*   OrderFree     the resulting dimensions do not depend on the order of the axes.    *)
EXTENDS X01Defs, TLC
CONSTANTS Guarded

AllPos == {"center", "left", "right", "inner", "outer"}
DimOf(a, p) == "d_" \o a \o "_" \o p
PosOrder == <<"center", "left", "right", "inner", "outer">>
PosSeq(P) == SelectSeq(PosOrder, LAMBDA p : p \in P)
AxisWith(a, P) == [name |-> a, n |-> 3, pos |-> [k \in DOMAIN PosSeq(P) |-> <<PosSeq(P)[k], DimOf(a, PosSeq(P)[k])>>]]
PosSets == {P \in SUBSET AllPos : "center" \in P /\ Cardinality(P) >= 2}

VARIABLES P1, P2, a1, a2, l1, l2, two
vars == <<P1, P2, a1, a2, l1, l2, two>>
Init == /\ two \in BOOLEAN
        /\ P1 \in PosSets /\ P2 \in (IF two THEN {Q \in PosSets : Cardinality(Q) = 2} ELSE {{"center", "left"}})
        /\ a1 \in P1 \cup {"none"} /\ l1 \in P1 \cup {"none"}
        /\ a2 \in (IF two THEN P2 \cup {"none"} ELSE {"none"}) /\ l2 \in (IF two THEN P2 \cup {"none"} ELSE {"none"})
Next == UNCHANGED vars
Spec == Init /\ [][Next]_vars

Axes == IF two THEN <<AxisWith("X", P1), AxisWith("Y", P2)>> ELSE <<AxisWith("X", P1)>>
SexA == <<AxisWith("Y", P2), AxisWith("X", P1)>>
DimsOf(p1, p2) == (IF p1 = "none" THEN <<>> ELSE <<DimOf("X", p1)>>) \o <<"t">> \o (IF p2 = "none" THEN <<>> ELSE <<DimOf("Y", p2)>>)
ADims == DimsOf(a1, a2)
LDims == DimsOf(l1, l2)
G(axes) == [axes |-> axes]

Defined(axes) == LET st == LikeSteps(G(axes), ADims, LDims, 1) IN
  \A k \in DOMAIN st : ValidShift(ThePos(AxisOf(G(axes), st[k][1]), ADims), st[k][2])
After(axes, adims) == DimsAfter(G(axes), adims, LikeSteps(G(axes), adims, LDims, 1), 1)

LandsOnLike == (Guarded => Defined(Axes)) =>
  \A k \in DOMAIN Axes : LET ax == Axes[k] IN
     (PosIn(ax, ADims) # {} /\ PosIn(ax, LDims) # {}) =>
        (PosIn(ax, After(Axes, ADims)) = PosIn(ax, LDims) /\ \A p \in PosIn(ax, LDims) : ValidOrSame(ThePos(ax, ADims), p))
Idempotent == LikeSteps(G(Axes), After(Axes, ADims), LDims, 1) = <<>>
OthersAlone == \A k \in DOMAIN Axes : LET ax == Axes[k] IN
     (PosIn(ax, ADims) = {} \/ PosIn(ax, LDims) = {}) => PosIn(ax, After(Axes, ADims)) = PosIn(ax, ADims)
OrderFree == two => After(Axes, ADims) = After(SexA, ADims)
KeepsOthers == Len(After(Axes, ADims)) = Len(ADims) /\ "t" \in SeqToSet(After(Axes, ADims))
=============================================================================
