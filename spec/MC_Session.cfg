SPECIFICATION Spec
CONSTANT MaxCalls = 3
INVARIANT DerivativeInvertsCumint
INVARIANT IntegrateIsLastCumint
INVARIANT ConstantAveragesToItself
CHECK_DEADLOCK FALSE
