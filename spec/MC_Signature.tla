---------------------------- MODULE MC_Signature ----------------------------
(* C15 on the specification: printing a signature structure and parsing it back *)
(* is the identity; no text is both well-formed and in a must-reject class; the *)
(* state space is every structure within a small bound and every text one       *)
(* character edit (deletion, insertion, substitution) away from its printout.   *)
EXTENDS Signature, TLC
CONSTANTS MaxIn

Names == {<<"X">>, <<"l","o","n">>}
Poss == {<<"c","e","n","t","e","r">>, <<"l","e","f","t">>}
PairS == Names \X Poss
ArgS == {<<>>} \cup {<<p>> : p \in PairS} \cup {<<p, q>> : p \in PairS, q \in PairS}
InS == {<<a>> : a \in ArgS} \cup (IF MaxIn >= 2 THEN {<<a, b>> : a \in ArgS, b \in ArgS} ELSE {})
OutS == {<<a>> : a \in {<<>>} \cup {<<p>> : p \in PairS}}
Alphabet == {"(", ")", ",", ":", "-", ">", "X", "q", " "}

VARIABLES ins, outs, text, edited
vars == <<ins, outs, text, edited>>
Init == ins \in InS /\ outs \in OutS /\ text = Print(ins, outs) /\ edited = FALSE
Delete(k) == text' = SubSeq(text, 1, k - 1) \o SubSeq(text, k + 1, Len(text))
Insert(k, c) == text' = SubSeq(text, 1, k - 1) \o <<c>> \o SubSeq(text, k, Len(text))
Subst(k, c) == text' = [text EXCEPT ![k] = c]
Edit == /\ ~edited /\ edited' = TRUE /\ UNCHANGED <<ins, outs>>
        /\ \/ \E k \in 1..Len(text) : Delete(k)
           \/ \E k \in 1..(Len(text) + 1), c \in Alphabet : Insert(k, c)
           \/ \E k \in 1..Len(text), c \in Alphabet : Subst(k, c)
Spec == Init /\ [][Edit]_vars

RoundTrip == ~edited => Parse(text) = <<TRUE, ins, outs>>
Consistent == ~(Parse(text)[1] /\ MustReject(text))
\* a well-formed text prints back to itself, spaces aside
PrintBack == Parse(text)[1] => Print(Parse(text)[2], Parse(text)[3]) = NoSpaces(text)
=============================================================================
