--------------------------- MODULE MC_PadCommute ---------------------------
(* Which basic paddings of two axes commute.  Padding is done one axis after   *)
(* the other (xgcm.padding._pad_basic), and the order is visible only in the   *)
(* halo CORNERS.  Theorem (checked by TLC for every array of symbolic cells on  *)
(* 1x1 .. 2x3, widths 0..2 on each side): the two orders agree for every pair   *)
(* of rules EXCEPT 'fill' on both axes with different fill values, where the    *)
(* corner holds the value of the axis padded last - refuted by TLC in the       *)
(* variant that drops the exception.  C02 accepts corner cells of either order  *)
(* for this reason, and C12 / C13 use exactly this pair of rules to make the    *)
(* order of the pad axes observable.                                            *)
EXTENDS Arr, TLC
CONSTANTS MaxN, MaxW, Guarded

Rules == {"fill", "extend", "periodic"}
Fills == {100, 200}
VARIABLES shape, r1, r2, f1, f2, w1, w2
vars == <<shape, r1, r2, f1, f2, w1, w2>>

\* cells are their own identities (distinct small integers), so equality of arrays is equality cell by cell
A == Build(shape, LAMBDA idx : 10 * idx[1] + idx[2] + 1)
Init == /\ shape \in {<<a, b>> : a \in 1..MaxN, b \in 1..MaxN}
        /\ r1 \in Rules /\ r2 \in Rules /\ f1 \in Fills /\ f2 \in Fills
        /\ w1 \in (0..MaxW) \X (0..MaxW) /\ w2 \in (0..MaxW) \X (0..MaxW)
Next == UNCHANGED vars
Spec == Init /\ [][Next]_vars

XY == PadDim(PadDim(A, 1, w1[1], w1[2], r1, f1), 2, w2[1], w2[2], r2, f2)
YX == PadDim(PadDim(A, 2, w2[1], w2[2], r2, f2), 1, w1[1], w1[2], r1, f1)
NonCommutingPair == r1 = "fill" /\ r2 = "fill" /\ f1 # f2
Commutes == (Guarded => ~NonCommutingPair) => XY = YX
\* outside the corners (cells in the halo of at most one axis) the two orders always agree
InCorner(idx) == (idx[1] < w1[1] \/ idx[1] >= w1[1] + shape[1]) /\ (idx[2] < w2[1] \/ idx[2] >= w2[1] + shape[2])
OffCornerAgree == \A k \in 1..Size(XY.shape) : LET idx == Unravel(XY.shape, k - 1) IN InCorner(idx) \/ XY.flat[k] = YX.flat[k]
\* and in the non-commuting case every corner cell holds the fill value of the axis padded last
CornerIsLast == NonCommutingPair => \A k \in 1..Size(XY.shape) : LET idx == Unravel(XY.shape, k - 1) IN
                  InCorner(idx) => (XY.flat[k] = f2 /\ YX.flat[k] = f1)
=============================================================================
