SPECIFICATION Spec
CONSTANTS Kx = 3
          Ky = 1
          N = 2
          W = 2
INVARIANT Recip
INVARIANT HaloOK
INVARIANT Symmetric
INVARIANT VectorRuleOK
CHECK_DEADLOCK FALSE
