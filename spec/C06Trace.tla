------------------------------ MODULE C06Trace ------------------------------
(* Trace validation for C06: an operation on dask-backed data is built without  *)
(* computing, and computes to the in-memory answer (for the stencil operators:  *)
(* to the geometric definition itself) for every chunking; data chunked along   *)
(* the operated axis with an inner/outer position involved is refused with      *)
(* NotImplementedError.                                                          *)
EXTENDS Calls, Json, IOUtils, TLC

Tr == ndJsonDeserialize(IOEnv.TRACE_FILE)
VARIABLE i

IO == {"inner", "outer"}
Chunked(r, dim) == \E k \in DOMAIN r.chunks : r.chunks[k][1] = dim /\ Len(r.chunks[k][2]) > 1
\* some operated axis is chunked along its dimension while its shift involves inner or outer
MustRefuse(r) ==
  /\ r.kind \in {"op", "weighted", "vecplain"} /\ r.op # "cumsum"
  /\ LET st == StepsFrom(r, r.args.data.dims, 1, <<>>)[1] IN
     \E k \in DOMAIN st : Chunked(r, r.args.data.dims[st[k].d]) /\ (st[k].from \in IO \/ st[k].to \in IO)

VDask(r) ==
  IF MustRefuse(r)
  THEN (IF r.out.k = "array" THEN "answered-instead-of-refusing"
        ELSE IF r.out.cls # "NotImplementedError" THEN "refused-with-another-error" ELSE "ok")
  ELSE IF r.out.k # "array" THEN "raised-on-lazy-input"
  ELSE IF ~r.lazy THEN "result-not-lazy"
  ELSE IF r.computes # 0 THEN "computed-while-building"
  ELSE IF r.eager.k # "array" THEN "ok"            \* the in-memory call itself fails: nothing to compare (other properties)
  ELSE IF r.out.dims # r.eager.dims \/ r.out.shape # r.eager.shape THEN "dims-differ-from-eager"
  ELSE IF r.out.flat # r.eager.flat THEN "values-differ-from-eager"
  ELSE IF r.out.coords # r.eager.coords THEN "coords-differ-from-eager"
  ELSE IF r.out.name # r.eager.name THEN "name-differs-from-eager"
  ELSE IF r.kind \in {"op", "vecplain"} /\ (LET e == Expected(r) IN r.out.dims # e.dims \/ r.out.flat # e.arr.flat) THEN "values-differ-from-geometry"
  ELSE "ok"

Verdict(r) == IF r.ev = "Dask" THEN VDask(r) ELSE "unknown-event"
Init == i = 1
Next == /\ i <= Len(Tr)
        /\ LET v == Verdict(Tr[i]) IN IF v = "ok" THEN TRUE ELSE PrintT(<<"V", Tr[i].id, v>>)
        /\ i' = i + 1
Spec == Init /\ [][Next]_i
=============================================================================
