---------------------------- MODULE DaskDispatch ----------------------------
(* C06 at design level, second half: how Grid._1d_grid_ufunc_dispatch chooses, *)
(* axis after axis, the dask mode handed to xarray.apply_ufunc and whether the *)
(* block-wise overlap wrapper is used.                                         *)
(*                                                                             *)
(* An operation names axes 1..K in order.  The data is lazy or not; along the  *)
(* dimension of axis a it is split into several chunks (chunked[a]) or not; the*)
(* shift of axis a involves an inner/outer position (io[a], the length changes)*)
(* or not.  The code starts from "parallelized" for lazy data ("forbidden"     *)
(* otherwise); at each axis, if the data is chunked along that axis it turns   *)
(* the overlap wrapper on (never for cumsum) and switches to "allowed" - and    *)
(* stays there for the axes that follow.                                       *)
(*                                                                             *)
(* What apply_ufunc / the wrapper demand (facts about xarray and xgcm):        *)
(*   - mode "forbidden" raises on lazy data;                                   *)
(*   - mode "parallelized" raises when the core dimension has several chunks;  *)
(*   - the overlap wrapper refuses (NotImplementedError) a length-changing     *)
(*     shift;                                                                   *)
(*   - mode "allowed" hands the lazy array to the kernel as it is (the kernels *)
(*     are slicing and arithmetic, which dask arrays support lazily).          *)
(* Claims: a step never raises except for the refusal the property names, the  *)
(* refusal happens exactly when some operated axis is chunked and changes      *)
(* length.  The variant rule "overlap-everywhere" (the wrapper for every lazy  *)
(* input) is refuted by TLC: it refuses requests the property wants answered.  *)
EXTENDS Naturals, Sequences, TLC
CONSTANTS K, Rule, Op          \* Rule \in {"code", "overlap-everywhere"}; Op \in {"stencil", "cumsum"}

VARIABLES lazy, chunked, io, k, mode, outcome, everChunked
vars == <<lazy, chunked, io, k, mode, outcome, everChunked>>

Init == /\ lazy \in BOOLEAN
        /\ chunked \in [1..K -> BOOLEAN] /\ io \in [1..K -> BOOLEAN]
        /\ (\E a \in 1..K : chunked[a]) => lazy                 \* only lazy data has chunks
        /\ k = 1 /\ mode = (IF lazy THEN "parallelized" ELSE "forbidden")
        /\ outcome = "running" /\ everChunked = FALSE

\* the step for axis k, as the dispatcher performs it
Step ==
  /\ outcome = "running" /\ k <= K
  /\ LET ch == IF Rule = "overlap-everywhere" THEN lazy ELSE chunked[k]
         overlap == ch /\ Op # "cumsum"
         m == IF ch THEN "allowed" ELSE mode
     IN /\ mode' = m
        /\ everChunked' = (everChunked \/ chunked[k])
        /\ outcome' = IF overlap /\ io[k] THEN "refused"
                      ELSE IF m = "forbidden" /\ lazy THEN "raised-forbidden-on-lazy"
                      ELSE IF m = "parallelized" /\ chunked[k] THEN "raised-parallelized-on-chunked-core"
                      ELSE IF k = K THEN "done" ELSE "running"
        /\ k' = k + 1
  /\ UNCHANGED <<lazy, chunked, io>>
Spec == Init /\ [][Step]_vars

\* the property's exception, and only that one
MustRefuse == Op # "cumsum" /\ \E a \in 1..K : chunked[a] /\ io[a]
NoOtherError == outcome \notin {"raised-forbidden-on-lazy", "raised-parallelized-on-chunked-core"}
RefusalExact == /\ outcome = "refused" => MustRefuse
                /\ outcome = "done" => ~MustRefuse
\* the mode never goes back from "allowed" (an array produced block-wise stays chunked for the axes that follow)
Sticky == [][mode = "allowed" => mode' = "allowed"]_vars
\* non-vacuity
SomeRunEnds == ~(outcome = "done" /\ everChunked)
=============================================================================
