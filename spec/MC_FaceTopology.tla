-------------------------- MODULE MC_FaceTopology --------------------------
(* Every decomposition of a Kx x Ky domain (each direction open or periodic)   *)
(* into N x N faces with an independent orientation per face.  For those whose *)
(* junctions the face_connections format can express, the documented link rule *)
(* yields exactly the face's window of the undivided domain; derived tables are *)
(* always reciprocal; linked faces see each other symmetrically.               *)
EXTENDS FaceTopology, SequencesExt, TLC
CONSTANTS Kx, Ky, N, W

K == <<Kx, Ky>>
AxName(x) == IF x = 1 THEN "X" ELSE "Y"
AxNo(a) == IF a = "X" THEN 1 ELSE 2
VARIABLES orient, per
vars == <<orient, per>>

Init == orient \in [1..(Kx * Ky) -> D4] /\ per \in [1..2 -> BOOLEAN]
\* re-orient one face, or open / close one direction
Reorient(f, g) == orient' = [orient EXCEPT ![f] = g] /\ UNCHANGED per
Toggle(d) == per' = [per EXCEPT ![d] = ~per[d]] /\ UNCHANGED orient
Next == (\E f \in 1..(Kx * Ky), g \in D4 : Reorient(f, g)) \/ (\E d \in 1..2 : Toggle(d))
Spec == Init /\ [][Next]_vars

Entries == SetToSeq({<<FaceNo(K, b), AxName(ax), sd, DLink(K, per, orient, b, ax, sd).face,
                       AxName(DLink(K, per, orient, b, ax, sd).axis), DLink(K, per, orient, b, ax, sd).rev>> :
                     <<b, ax, sd>> \in {t \in Blocks(K) \X {1, 2} \X {0, 1} : DLink(K, per, orient, t[1], t[2], t[3]).face # -1}})

Recip == Reciprocal(Entries, Kx * Ky, {"X", "Y"})

\* halo cell (depth k, along-edge t) of block b on local axis ax, side sd, as local extended (i, j)
HaloIJ(ax, sd, k, t) == LET o == IF sd = 1 THEN N - 1 + k ELSE -k IN IF ax = 1 THEN <<o, t>> ELSE <<t, o>>
HaloOK == Expressible(K, per, orient) =>
  \A b \in Blocks(K), ax \in {1, 2}, sd \in {0, 1}, k \in 1..W, t \in 0..(N - 1) :
     LET l == DLink(K, per, orient, b, ax, sd) IN
     l.face = -1 \/
     LET l3 == [face |-> l.face, axis |-> AxName(l.axis), rev |-> l.rev]
         so == HaloSo(l3, N, sd, k)
         st == HaloSt(l3, N, AxName(ax), t)
         src == IF l.axis = 1 THEN <<so, st>> ELSE <<st, so>>
         h == HaloIJ(ax, sd, k, t)
     IN Window(K, N, per, orient, BlockOfFace(K, l.face), src[1], src[2]) = Window(K, N, per, orient, b, h[1], h[2])

\* exchange symmetry: if b's halo cell h comes from B's interior cell c, then B's halo cell at the
\* mirrored place comes from the interior cell of b adjacent to h
Symmetric == Expressible(K, per, orient) =>
  \A b \in Blocks(K), ax \in {1, 2}, sd \in {0, 1}, t \in 0..(N - 1) :
     LET l == DLink(K, per, orient, b, ax, sd) IN
     l.face = -1 \/
     LET l3 == [face |-> l.face, axis |-> AxName(l.axis), rev |-> l.rev]
         st == HaloSt(l3, N, AxName(ax), t)
         bsd == IF l.rev THEN sd ELSE 1 - sd
         back == DLink(K, per, orient, BlockOfFace(K, l.face), l.axis, bsd)
         b3 == [face |-> back.face, axis |-> AxName(back.axis), rev |-> back.rev]
     IN /\ back.face = FaceNo(K, b) /\ back.axis = ax
        /\ HaloSt(b3, N, AxName(l.axis), st) = t
        /\ HaloSo(b3, N, bsd, 1) = (IF sd = 1 THEN N - 1 ELSE 0)

\* the vector rule of C04 / C05: across a link, the component along axis v of the neighbour points the same way as
\* mine exactly when the documented rule does not negate it (normal component: negated iff the link is reversed;
\* tangential component: negated iff the link swaps axes without being reversed)
VectorRuleOK == Expressible(K, per, orient) =>
  \A b \in Blocks(K), ax \in {1, 2}, sd \in {0, 1} :
     LET l == DLink(K, per, orient, b, ax, sd) IN
     l.face = -1 \/
     LET l3 == [face |-> l.face, axis |-> AxName(l.axis), rev |-> l.rev]
         gb == orient[FaceNo(K, b) + 1]
         gB == orient[l.face + 1]
     IN /\ AxisDir(gb, ax)[1] = AxisDir(gB, l.axis)[1]                         \* my normal axis is the neighbour's link axis
        /\ (AxisDir(gb, ax)[2] = AxisDir(gB, l.axis)[2]) <=> (LinkSign(l3, AxName(ax), AxName(ax)) = 1)
        /\ (AxisDir(gb, 3 - ax)[2] = AxisDir(gB, 3 - l.axis)[2]) <=> (LinkSign(l3, AxName(ax), AxName(3 - ax)) = 1)
        /\ UsesPartner(l3, AxName(ax)) <=> (l.axis # ax)

\* non-vacuity: some expressible decomposition has every one of the 8 link kinds
KindsSeen == {<<sd, DLink(K, per, orient, b, ax, sd).axis # ax, DLink(K, per, orient, b, ax, sd).rev>> :
              <<b, ax, sd>> \in {t \in Blocks(K) \X {1, 2} \X {0, 1} : DLink(K, per, orient, t[1], t[2], t[3]).face # -1}}
NeverAllKinds == ~(Expressible(K, per, orient) /\ Cardinality(KindsSeen) = 8)
=============================================================================
