------------------------------ MODULE X01Defs ------------------------------
(* What Grid.interp_like(array, like) does, at the level of dimensions and positions *)
(* (shared by X01Trace.tla, which adds the values, and MC_InterpLike.tla).           *)
EXTENDS GridModel, FiniteSetsExt, SequencesExt

\* <<axis name, position of like>> for the axes (grid order) on which array and like stand at different positions
RECURSIVE LikeSteps(_, _, _, _)
LikeSteps(grid, adims, ldims, k) ==
  IF k > Len(grid.axes) THEN <<>>
  ELSE LET ax == grid.axes[k]
           pa == PosIn(ax, adims)
           pl == PosIn(ax, ldims)
       IN (IF Cardinality(pa) = 1 /\ Cardinality(pl) = 1 /\ pa # pl
           THEN << <<ax.name, CHOOSE p \in pl : TRUE>> >> ELSE <<>>) \o LikeSteps(grid, adims, ldims, k + 1)

\* dimensions of the array after the steps
RECURSIVE DimsAfter(_, _, _, _)
DimsAfter(grid, dims, st, k) ==
  IF k > Len(st) THEN dims
  ELSE LET ax == AxisOf(grid, st[k][1]) IN
       DimsAfter(grid, ReplaceDim(dims, DimOfPos(ax, ThePos(ax, dims)), DimOfPos(ax, st[k][2])), st, k + 1)

ValidOrSame(from, to) == from = to \/ ValidShift(from, to)
=============================================================================
