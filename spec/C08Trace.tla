------------------------------ MODULE C08Trace ------------------------------
(* Trace validation for C08: each recorded column of the real linear / log      *)
(* transform against the exact piecewise-linear interpolant, plus the naming of *)
(* the new dimension and of the result.                                          *)
EXTENDS LinearInterp, Json, IOUtils, TLC
Tr == ndJsonDeserialize(IOEnv.TRACE_FILE)
VARIABLE i

VLinear(r) ==
  IF ~(StrictInc(r.theta) \/ StrictDec(r.theta)) THEN "driver-theta-not-monotonic"
  ELSE IF r.out.k # "values" THEN "raised-on-valid-call"
  ELSE IF Len(r.out.v) # Len(r.levels) THEN "shape"
  ELSE IF \E q \in DOMAIN r.levels : LET e == InterpAt(r.theta, r.phi, r.levels[q], r.mask) IN
            e = NaN /\ r.out.v[q][2] # 0 THEN "edge-not-masked"
  ELSE IF \E q \in DOMAIN r.levels : LET e == InterpAt(r.theta, r.phi, r.levels[q], r.mask) IN
            e # NaN /\ r.out.v[q][2] = 0 THEN "masked-inside-range"
  ELSE IF \E q \in DOMAIN r.levels : ~RatEq(r.out.v[q], InterpAt(r.theta, r.phi, r.levels[q], r.mask)) THEN "interpolant"
  ELSE IF r.out.newdim # r.expect_newdim THEN "new-dimension-name"
  ELSE IF r.out.name # r.expect_name THEN "result-name"
  ELSE "ok"

Verdict(r) == IF r.ev = "Linear" THEN VLinear(r) ELSE "unknown-event"
Init == i = 1
Next == /\ i <= Len(Tr)
        /\ LET v == Verdict(Tr[i]) IN IF v = "ok" THEN TRUE ELSE PrintT(<<"V", Tr[i].id, v>>)
        /\ i' = i + 1
Spec == Init /\ [][Next]_i
=============================================================================
