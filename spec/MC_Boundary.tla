---------------------------- MODULE MC_Boundary ----------------------------
(* C02 as a two-step state machine over every spelling of the constructor and  *)
(* per-call arguments for a 2-axis grid.  Construct and Pad are shaped like the *)
(* code (dictionary completion, loop over the periodic table, `defaults | user`)*)
(* and are compared with the declarative three-level lookup of Boundary.tla.    *)
(* Legacy = TRUE reproduces the pinned constructor (a `periodic` list only      *)
(* marks the listed axes; unlisted ones fall through to the Axis default) and   *)
(* is refuted by TLC.                                                            *)
EXTENDS Boundary, TLC
CONSTANTS Legacy

AxSet == {"a1", "a2"}
RuleS == {"fill", "extend", "periodic"}
FillS == {0, 5}
Maps(V) == {<<>>} \cup {<<<<a, v>>>> : a \in AxSet, v \in V}
             \cup {<<<<a, v>>, <<b, w>>>> : <<a, b, v, w>> \in {t \in AxSet \X AxSet \X V \X V : t[1] # t[2]}}
\* TLC cannot hold records whose fields have different types in one set, so the spellings are given as predicates
IsTagged(x, V) == \/ x = [k |-> "none", v |-> <<>>]
                  \/ \E s \in V : x = [k |-> "s", v |-> s]
                  \/ \E m \in Maps(V) : x = [k |-> "m", v |-> m]
IsPer(x) == \/ \E b \in BOOLEAN : x = [k |-> "b", v |-> b]
            \/ \E l \in {<<>>, <<"a1">>, <<"a2">>, <<"a1", "a2">>, <<"a2", "a1">>} : x = [k |-> "l", v |-> l]
            \/ \E y, z \in BOOLEAN : x = [k |-> "m", v |-> <<<<"a1", y>>, <<"a2", z>>>>]

VARIABLES per, bnd, fil, phase, settings, callB, callF, inforce
vars == <<per, bnd, fil, phase, settings, callB, callF, inforce>>
ctor == [periodic |-> per, boundary |-> bnd, fill_value |-> fil]

None == "None"
\* ---- code-shaped constructor
BoundaryDict(c, ax) == IF c.boundary.k = "s" THEN c.boundary.v
                       ELSE IF c.boundary.k = "m" THEN Lookup(c.boundary.v, ax, None) ELSE None
InPeriodicDict(c, ax) == CASE c.periodic.k = "b" -> TRUE
                           [] c.periodic.k = "l" -> IF Legacy THEN ax \in SeqToSet(c.periodic.v) ELSE TRUE
                           [] c.periodic.k = "m" -> HasKey(c.periodic.v, ax)
PeriodicDict(c, ax) == CASE c.periodic.k = "b" -> c.periodic.v
                         [] c.periodic.k = "l" -> ax \in SeqToSet(c.periodic.v)
                         [] c.periodic.k = "m" -> Lookup(c.periodic.v, ax, FALSE)
ImplRule(c, ax) ==
  LET b == BoundaryDict(c, ax) IN
  IF b # None THEN b
  ELSE IF InPeriodicDict(c, ax) THEN (IF PeriodicDict(c, ax) THEN "periodic" ELSE "fill")
  ELSE "periodic"                                    \* Axis default when nothing was decided
ImplFill(c, ax) == IF c.fill_value.k = "s" THEN c.fill_value.v
                   ELSE IF c.fill_value.k = "m" THEN Lookup(c.fill_value.v, ax, 0) ELSE 0
\* ---- code-shaped per-call completion: defaults | user
ImplCall(arg, dflt, ax) == IF arg.k = "s" THEN arg.v ELSE IF arg.k = "m" THEN Lookup(arg.v, ax, dflt) ELSE dflt

Init == /\ IsPer(per) /\ IsTagged(bnd, RuleS) /\ IsTagged(fil, FillS)
        /\ phase = "new" /\ settings = <<>> /\ inforce = <<>>
        /\ callB = [k |-> "none", v |-> <<>>] /\ callF = [k |-> "none", v |-> <<>>]
Construct == /\ phase = "new" /\ phase' = "built"
             /\ settings' = [ax \in AxSet |-> <<ImplRule(ctor, ax), ImplFill(ctor, ax)>>]
             /\ UNCHANGED <<per, bnd, fil, callB, callF, inforce>>
Pad == /\ phase = "built" /\ phase' = "padded"
       /\ IsTagged(callB', RuleS) /\ IsTagged(callF', {0, 7})
       /\ inforce' = [ax \in AxSet |-> <<ImplCall(callB', settings[ax][1], ax), ImplCall(callF', settings[ax][2], ax)>>]
       /\ UNCHANGED <<per, bnd, fil, settings>>
Next == Construct \/ Pad
Spec == Init /\ [][Next]_vars

ConstructOK == phase # "new" => \A ax \in AxSet : settings[ax] = <<GridRule(ctor, ax), GridFill(ctor, ax)>>
PadOK == phase = "padded" => \A ax \in AxSet : inforce[ax] = <<RuleInForce(ctor, callB, ax), FillInForce(ctor, callF, ax)>>
\* scalar and per-axis spellings of the same choice are interchangeable
Total(arg) == IF arg.k = "s" THEN [k |-> "m", v |-> <<<<"a1", arg.v>>, <<"a2", arg.v>>>>] ELSE arg
SpellingOK == phase = "padded" =>
   \A ax \in AxSet : /\ RuleInForce(ctor, Total(callB), ax) = RuleInForce(ctor, callB, ax)
                     /\ RuleInForce([ctor EXCEPT !.boundary = Total(ctor.boundary)], callB, ax) = RuleInForce(ctor, callB, ax)
                     /\ FillInForce([ctor EXCEPT !.fill_value = Total(ctor.fill_value)], Total(callF), ax) = FillInForce(ctor, callF, ax)
=============================================================================
