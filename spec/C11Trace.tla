------------------------------ MODULE C11Trace ------------------------------
(* Trace validation for C11: arguments received by a recording user function    *)
(* and the DataArrays handed back, for calls through apply_as_grid_ufunc and    *)
(* through functions decorated with as_grid_ufunc.                              *)
EXTENDS GridUfunc, Json, IOUtils, TLC
Tr == ndJsonDeserialize(IOEnv.TRACE_FILE)
VARIABLE i

Arr0(x) == [shape |-> x.shape, flat |-> x.flat]
NoneOpt == [k |-> "none"]
\* rule / fill in force for a real axis: effective option (call over definition) over the grid's setting
RulesFor(r) ==
  LET b == Effective(r.call.boundary, r.def.boundary, NoneOpt)
      f == Effective(r.call.fill_value, r.def.fill_value, NoneOpt)
  IN [ax \in {r.grid.axes[k].name : k \in DOMAIN r.grid.axes} |->
        <<RuleInForce(r.grid.ctor, b, ax), FillInForce(r.grid.ctor, f, ax)>>]
Widths(r) == LET w == Effective(r.call.boundary_width, r.def.boundary_width, NoneOpt) IN IF w.k = "none" THEN <<>> ELSE w.v
PadBefore(r) == LET p == Effective(r.call.pad_before_func, r.def.pad_before_func, [k |-> "s", v |-> TRUE]) IN p.v

\* inputs must lie on the positions the signature names
OnPositions(r) == \A a \in DOMAIN r.sig.ins : \A k \in DOMAIN r.sig.ins[a] :
   LET ax == AxisOf(r.grid, r.axis[a][k]) IN
   HasKey(ax.pos, r.sig.ins[a][k][2]) /\ DimOfPos(ax, r.sig.ins[a][k][2]) \in SeqToSet(r.inputs[a].dims)

\* ... and carry no second dimension of an axis the signature names for them
TwoDimsOfAnAxis(r) == \E a \in DOMAIN r.sig.ins : \E k \in DOMAIN r.sig.ins[a] :
   LET ax == AxisOf(r.grid, r.axis[a][k]) IN
   Cardinality({j \in DOMAIN ax.pos : ax.pos[j][2] \in SeqToSet(r.inputs[a].dims)}) > 1

VCall(r) ==
  IF ~BindingOK(r.sig.ins, r.axis) \/ Len(r.inputs) # Len(r.sig.ins) THEN (IF r.out.k = "results" THEN "accepted-arity-mismatch" ELSE "ok")
  ELSE IF ~OnPositions(r) THEN (IF r.out.k = "results" THEN "accepted-input-on-wrong-position" ELSE "ok")
  ELSE IF TwoDimsOfAnAxis(r) THEN (IF r.out.k = "results" THEN "accepted-input-with-two-dimensions-of-an-axis" ELSE "ok")
  ELSE IF r.out.k # "results" THEN "raised-on-valid-call"
  ELSE LET rules == RulesFor(r)
           ws == Widths(r)
           ArrExp(a) == LET inp == r.inputs[a]
                            p == IF PadBefore(r) THEN PadAll(r.grid, Arr0(inp), inp.dims, ws, r.sig.ins, r.axis, rules, 1) ELSE Arr0(inp)
                            ad == ArrivalDims(r.grid, inp.dims, r.sig.ins[a], r.axis[a])
                        IN Transpose(p, inp.dims, ad)
       IN IF Len(r.out.received) # Len(r.inputs) THEN "number-of-arguments-received"
          ELSE IF \E a \in DOMAIN r.inputs :
                    LET e == ArrExp(a)  nc == Len(r.sig.ins[a])  got == r.out.received[a] IN
                    Len(got.shape) < nc \/ SubSeq(got.shape, Len(got.shape) - nc + 1, Len(got.shape)) # SubSeq(e.shape, Len(e.shape) - nc + 1, Len(e.shape))
               THEN "core-dims-not-trailing-or-wrong-width"
          ELSE IF \E a \in DOMAIN r.inputs : r.out.received[a].flat # ArrExp(a).flat THEN "received-values"
          ELSE IF Len(r.out.results) # Len(r.sig.outs) THEN "number-of-results"
          ELSE IF \E o \in DOMAIN r.sig.outs :
                    LET core == OutCoreDims(r.grid, r.sig.ins, r.axis, r.sig.outs[o])  got == r.out.results[o] IN
                    Len(got.dims) < Len(core) \/ SubSeq(got.dims, Len(got.dims) - Len(core) + 1, Len(got.dims)) # core
               THEN "output-dims"
          ELSE IF PadBefore(r) /\ \E o \in DOMAIN r.sig.outs : r.out.results[o].flat # r.out.returned[o].flat THEN "output-values"
          ELSE "ok"

Verdict(r) == IF r.ev = "Ufunc" THEN VCall(r) ELSE "unknown-event"
Init == i = 1
Next == /\ i <= Len(Tr)
        /\ LET v == Verdict(Tr[i]) IN IF v = "ok" THEN TRUE ELSE PrintT(<<"V", Tr[i].id, v>>)
        /\ i' = i + 1
Spec == Init /\ [][Next]_i
=============================================================================
