----------------------------- MODULE MC_Session -----------------------------
(* Session.tla explored by TLC: registrations interleaved with operator calls   *)
(* on a 3-cell axis with positions center / left / outer.  Invariants relate    *)
(* the operators to one another under whatever registry the history produced:   *)
(* derivative inverts cumint, integrate is the last cumint value, a constant    *)
(* averages to itself, a weighted difference of a constant vanishes inside.     *)
EXTENDS Session
CONSTANTS MaxCalls

Vars == {"c1", "c2", "l1", "o1"}
SlotOf == [v \in Vars |-> CASE v \in {"c1", "c2"} -> "center" [] v = "l1" -> "left" [] v = "o1" -> "outer"]
Values == [v \in Vars |-> CASE v = "c1" -> <<1, 2, 4>> [] v = "c2" -> <<3, 1, 2>> [] v = "l1" -> <<2, 2, 1>> [] v = "o1" -> <<1, 3, 2, 2>>]
Lists == {<<v>> : v \in Vars} \cup {<<v, w>> : <<v, w>> \in {t \in Vars \X Vars : SlotOf[t[1]] # SlotOf[t[2]]}}
Xs == {<<RInt(a), RInt(b), RInt(c)>> : a, b, c \in {-1, 2}}

VARIABLES reg, x, ncalls
vars == <<reg, x, ncalls>>
Init == reg = [k \in {"X"} |-> <<>>] /\ x \in Xs /\ ncalls = 0
SetM(vs, ow) == /\ ncalls < MaxCalls /\ ncalls' = ncalls + 1 /\ UNCHANGED x
                /\ reg' = SetMetricsSpec(reg, SlotOf, "X", vs, ow).reg
Next == \E vs \in Lists, ow \in BOOLEAN : SetM(vs, ow)
Spec == Init /\ [][Next]_vars

In == [pos |-> "center", v |-> x]
Ready == HasMetricAt(reg, SlotOf, "center") /\ HasMetricAt(reg, SlotOf, "outer")
Cumint == Answer([kind |-> "cumint", to |-> "outer", rule |-> "fill", fill |-> 0], reg, SlotOf, Values, In)
DerivativeInvertsCumint == Ready =>
   RSeqEq(Answer([kind |-> "derivative", to |-> "center", rule |-> "fill", fill |-> 0], reg, SlotOf, Values, Cumint).v, x)
IntegrateIsLastCumint == Ready =>
   REq(Answer([kind |-> "integrate"], reg, SlotOf, Values, In).v[1], Cumint.v[Len(Cumint.v)])
ConstantAveragesToItself == HasMetricAt(reg, SlotOf, "center") =>
   REq(Answer([kind |-> "average"], reg, SlotOf, Values, [pos |-> "center", v |-> <<RInt(5), RInt(5), RInt(5)>>]).v[1], RInt(5))
=============================================================================
