SPECIFICATION Spec
CONSTANTS Kx = 2
          Ky = 1
          N = 2
          W = 2
          RuleSet = {"fill", "extend", "periodic"}
INVARIANT ClosedFormOK
INVARIANT OffCornerRule
CHECK_DEADLOCK FALSE
