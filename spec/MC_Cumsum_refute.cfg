SPECIFICATION Spec
CONSTANTS MaxN = 2
          Vals = {1, 2}
INVARIANT CommutesUnguarded
CHECK_DEADLOCK FALSE
