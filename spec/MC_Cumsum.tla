----------------------------- MODULE MC_Cumsum -----------------------------
(* C09 theorems on the specification: cumsum over two axes commutes unless a    *)
(* non-zero fill value is in force (and TLC refutes the unguarded claim), and   *)
(* the last running sum on outer/right targets is the total.                    *)
EXTENDS Stencil, TLC
CONSTANTS MaxN, Vals

Fills == {0, 3}
ValsWithNegative == {-1, 0, 2}        \* a configuration file cannot spell a negative number: Vals <- ValsWithNegative
Shifts == {<<f, t>> \in PosWords \X PosWords : ValidShift(f, t)}

VARIABLES a, s1, s2, r1, r2, f1, f2, phase, ab, ba
vars == <<a, s1, s2, r1, r2, f1, f2, phase, ab, ba>>

Init == /\ s1 \in Shifts /\ s2 \in Shifts /\ r1 \in Rules /\ r2 \in Rules /\ f1 \in Fills /\ f2 \in Fills
        /\ \E n1 \in 2..MaxN, n2 \in 2..MaxN :
              a \in {[shape |-> <<PLen(s1[1], n1), PLen(s2[1], n2)>>, flat |-> fl] :
                        fl \in [1..(PLen(s1[1], n1) * PLen(s2[1], n2)) -> Vals]}
        /\ phase = "call" /\ ab = <<>> /\ ba = <<>>
Run == /\ phase = "call" /\ phase' = "done"
       /\ ab' = GeoCumsum(GeoCumsum(a, 1, s1[1], s1[2], r1, f1), 2, s2[1], s2[2], r2, f2)
       /\ ba' = GeoCumsum(GeoCumsum(a, 2, s2[1], s2[2], r2, f2), 1, s1[1], s1[2], r1, f1)
       /\ UNCHANGED <<a, s1, s2, r1, r2, f1, f2>>
Spec == Init /\ [][Run]_vars

NonzeroFill == (r1 = "fill" /\ f1 # 0) \/ (r2 = "fill" /\ f2 # 0)
Commutes == (phase = "done" /\ ~NonzeroFill) => ab = ba
CommutesUnguarded == phase = "done" => ab = ba      \* must be refuted (non-vacuity of the guard)

RECURSIVE SumSeq(_)
SumSeq(s) == IF s = <<>> THEN 0 ELSE Head(s) + SumSeq(Tail(s))
LastIsTotal == (phase = "done" /\ s1[2] \in {"outer", "right"} /\ s2[2] \in {"outer", "right"}) =>
                  ab.flat[Len(ab.flat)] = SumSeq(a.flat)
=============================================================================
