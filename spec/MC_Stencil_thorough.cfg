SPECIFICATION Spec
CONSTANTS MaxN = 5
          MaxN2 = 3
INVARIANT StencilOK
INVARIANT CumsumOK
INVARIANT ShapeOK
INVARIANT InverseOK
CHECK_DEADLOCK FALSE
