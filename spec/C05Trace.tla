------------------------------ MODULE C05Trace ------------------------------
(* Trace validation for C05 (and the corner / ordering part of C12): padded     *)
(* arrays of the real xgcm.padding.pad on face-connected grids.                 *)
EXTENDS FaceCalls, Json, IOUtils, TLC

Tr == ndJsonDeserialize(IOEnv.TRACE_FILE)
VARIABLE i

Perms2(ws) == {p \in [DOMAIN ws -> DOMAIN ws] : \A x, y \in DOMAIN ws : x # y => p[x] # p[y]}

\* C05: interior unchanged, every cell in the halo of exactly one axis is the documented cell
VFacePad(r) ==
  IF r.out.k # "array" THEN "raised-on-valid-call"
  ELSE LET order == PadAxes(r)
           shape == PaddedShape(r) IN
       IF r.out.dims # r.args.data.dims THEN "dims"
       ELSE IF r.out.shape # shape THEN "shape"
       ELSE IF \E k \in 1..Size(shape) : LET idx == Unravel(shape, k - 1) IN
                  HaloCountAt(r, idx, order) = 0 /\ r.out.flat[k] # PaddedAt(r, idx, order) THEN "interior"
       ELSE IF \E k \in 1..Size(shape) : LET idx == Unravel(shape, k - 1) IN
                  HaloCountAt(r, idx, order) = 1 /\ r.out.flat[k] # PaddedAt(r, idx, order) THEN "halo"
       ELSE "ok"

\* C12 (per record): the whole array, corners included, is what the assembly gives for SOME order of the pad axes
VFaceCorner(r) ==
  IF r.out.k # "array" THEN "raised-on-valid-call"
  ELSE LET order == PadAxes(r)
           shape == PaddedShape(r) IN
       IF r.out.shape # shape THEN "shape"
       ELSE IF \E p \in Perms2(order) :
                 \A k \in 1..Size(shape) : r.out.flat[k] = PaddedAt(r, Unravel(shape, k - 1), [j \in DOMAIN order |-> order[p[j]]])
            THEN "ok" ELSE "corner"

Verdict(r) == CASE r.ev = "FacePad" -> VFacePad(r)
                [] r.ev = "FaceCorner" -> VFaceCorner(r)
                [] OTHER -> "unknown-event"

Init == i = 1
Next == /\ i <= Len(Tr)
        /\ LET v == Verdict(Tr[i]) IN IF v = "ok" THEN TRUE ELSE PrintT(<<"V", Tr[i].id, v>>)
        /\ i' = i + 1
Spec == Init /\ [][Next]_i
=============================================================================
