SPECIFICATION Spec
CONSTANTS MaxN = 2
          Vals <- ValsWithNegative
INVARIANT Commutes
INVARIANT LastIsTotal
CHECK_DEADLOCK FALSE
