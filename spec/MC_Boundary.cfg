SPECIFICATION Spec
CONSTANT Legacy = FALSE
INVARIANT ConstructOK
INVARIANT PadOK
INVARIANT SpellingOK
CHECK_DEADLOCK FALSE
