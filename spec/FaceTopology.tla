---------------------------- MODULE FaceTopology ----------------------------
(* C03 C04 C05 C12 C17.  Square faces of N x N cells joined by links.          *)
(*  - a link table as entries <<face, axis, side, nface, naxis, rev>> (side 0 = *)
(*    left, 1 = right), reciprocity (the acceptance predicate of C17);          *)
(*  - the documented link rule: which cell of the neighbour a halo cell copies, *)
(*    which component and sign for vectors;                                     *)
(*  - the padded value of every cell, halo corners included, as the per-face    *)
(*    assembly of the code produces it for a given order of the padded axes;    *)
(*  - oriented decompositions of a rectangular domain: every block carries an   *)
(*    element of D4; links, expressibility and the global window are derived.   *)
EXTENDS Arr

NoLink == [face |-> -1, axis |-> "none", rev |-> FALSE]
IsLink(l) == l.face # -1

RECURSIVE LinkFrom(_, _, _, _, _)
LinkFrom(entries, f, a, sd, k) ==
  IF k > Len(entries) THEN NoLink
  ELSE LET e == entries[k] IN
       IF e[1] = f /\ e[2] = a /\ e[3] = sd THEN [face |-> e[4], axis |-> e[5], rev |-> e[6]]
       ELSE LinkFrom(entries, f, a, sd, k + 1)
LinkOf(entries, f, a, sd) == LinkFrom(entries, f, a, sd, 1)

OtherAx(axes, a) == IF a = axes[1] THEN axes[2] ELSE axes[1]

\* ---------------------------------------------------------------- C17: reciprocity
\* every link names an existing face and axis and is answered, on the side implied by the reverse flag
\* (opposite side for a normal link, same side for a reversed one), by a link back with the same flag
Answered(entries, nfaces, axset, e) ==
  /\ e[4] \in 0..(nfaces - 1) /\ e[5] \in axset /\ e[1] \in 0..(nfaces - 1) /\ e[2] \in axset
  /\ LET back == LinkOf(entries, e[4], e[5], IF e[6] THEN e[3] ELSE 1 - e[3])
     IN back = [face |-> e[1], axis |-> e[2], rev |-> e[6]]
Reciprocal(entries, nfaces, axset) == \A k \in DOMAIN entries : Answered(entries, nfaces, axset, entries[k])

\* ---------------------------------------------------------------- C05: the link rule
\* halo cell of a face on axis a, side sd, depth k >= 1, along-edge position t: the cell of the linked
\* face k cells inward from the linked edge (index `so` along the link's axis), at the same along-edge
\* position, mirrored for an axis-swapping non-reversed link (index `st` along the other axis)
HaloSo(l, N, sd, k) == IF (sd = 1) # l.rev THEN k - 1 ELSE N - k
HaloSt(l, N, a, t) == IF l.axis # a /\ ~l.rev THEN N - 1 - t ELSE t
\* vector input: component along axis v; across an axis-swapping link the partner component is read;
\* negated exactly when the link reverses the component's direction
UsesPartner(l, a) == l.axis # a
LinkSign(l, a, v) == IF v = "none" THEN 1
                     ELSE IF (l.rev /\ v = a) \/ (l.axis # a /\ ~l.rev /\ v # a) THEN -1 ELSE 1

Depth(N, i) == IF i < 0 THEN -i ELSE i - N + 1          \* for a halo index
SideOf(i) == IF i < 0 THEN 0 ELSE 1
InHalo(N, i) == i < 0 \/ i >= N

\* ---------------------------------------------------------------- padded values, corners included
\* c = [axis name |-> index in the face's own frame, possibly outside 0..N-1]; pad axes `order` (a sequence
\* of axis names: the order in which the code takes them); rules/fills/lens = functions of axis name
\* (lens = length of the array along that axis; N for the two face axes);
\* Val(f, c) = data of face f at in-range c; PVal likewise for the partner component.
RECURSIVE BasicAt(_, _, _, _, _, _, _, _)
BasicAt(Val(_, _), f, c, lens, order, k, rules, fills) ==    \* basic pad along order[1..k], in that order
  IF k = 0 THEN Val(f, c)
  ELSE LET a == order[k]  i == c[a]  L == lens[a] IN
       IF ~InHalo(L, i) THEN BasicAt(Val, f, c, lens, order, k - 1, rules, fills)
       ELSE CASE rules[a] = "fill" -> fills[a]
              [] rules[a] = "extend" -> BasicAt(Val, f, [c EXCEPT ![a] = IF i < 0 THEN 0 ELSE L - 1], lens, order, k - 1, rules, fills)
              [] rules[a] = "periodic" -> BasicAt(Val, f, [c EXCEPT ![a] = Mod(i, L)], lens, order, k - 1, rules, fills)

\* value the code puts into a halo strip of axis a: read from the PREPADDED source face
StripVal(Val(_, _), PVal(_, _), entries, axes, f, a, c, N, lens, order, rules, fills, v) ==
  LET l == LinkOf(entries, f, a, SideOf(c[a]))
      so == HaloSo(l, N, SideOf(c[a]), Depth(N, c[a]))
      st == HaloSt(l, N, a, c[OtherAx(axes, a)])
      cs == [c EXCEPT ![l.axis] = so, ![OtherAx(axes, l.axis)] = st]
  IN LinkSign(l, a, v) *
     (IF v # "none" /\ UsesPartner(l, a) THEN BasicAt(PVal, l.face, cs, lens, order, Len(order), rules, fills)
      ELSE BasicAt(Val, l.face, cs, lens, order, Len(order), rules, fills))

\* after the replacement passes for order[1..k]: the last linked pass that covers the cell wins
RECURSIVE AsmAt(_, _, _, _, _, _, _, _, _, _, _, _, _)
AsmAt(Val(_, _), PVal(_, _), entries, axes, f, c, N, lens, order, k, rules, fills, v) ==
  IF k = 0 THEN BasicAt(Val, f, c, lens, order, Len(order), rules, fills)
  ELSE LET a == order[k] IN
       IF a \in SeqToSet(axes) /\ InHalo(N, c[a]) /\ IsLink(LinkOf(entries, f, a, SideOf(c[a])))
       THEN StripVal(Val, PVal, entries, axes, f, a, c, N, lens, order, rules, fills, v)
       ELSE AsmAt(Val, PVal, entries, axes, f, c, N, lens, order, k - 1, rules, fills, v)
Asm(Val(_, _), PVal(_, _), entries, axes, f, c, N, lens, order, rules, fills, v) ==
  AsmAt(Val, PVal, entries, axes, f, c, N, lens, order, Len(order), rules, fills, v)

\* pad axes along which c lies in the halo
HaloAxes(c, lens, order) == {k \in DOMAIN order : InHalo(lens[order[k]], c[order[k]])}

\* ---------------------------------------------------------------- oriented decompositions
\* blocks <<bx, by>> of a Kx x Ky domain, orientation g = [s, fx, fy] \in D4: local (i, j) (i along the
\* face's first axis, j along its second) sits at global offset Loc2Glob within the block
D4 == [s : {0, 1}, fx : {0, 1}, fy : {0, 1}]
FlipI(N, c, x) == IF c = 1 THEN N - 1 - x ELSE x
Loc2Glob(N, g, i, j) == <<FlipI(N, g.fx, IF g.s = 1 THEN j ELSE i), FlipI(N, g.fy, IF g.s = 1 THEN i ELSE j)>>
\* global direction (1 = x, 2 = y) and sign of local axis number ax (1 or 2)
AxisDir(g, ax) == IF g.s = 0
                  THEN IF ax = 1 THEN <<1, IF g.fx = 1 THEN -1 ELSE 1>> ELSE <<2, IF g.fy = 1 THEN -1 ELSE 1>>
                  ELSE IF ax = 1 THEN <<2, IF g.fy = 1 THEN -1 ELSE 1>> ELSE <<1, IF g.fx = 1 THEN -1 ELSE 1>>
KOf(K, ga) == K[ga]
FaceNo(K, b) == b[2] * K[1] + b[1]
BlockOfFace(K, f) == <<f % K[1], f \div K[1]>>

\* neighbour block across side sd of local axis ax: <<>> on an open edge, else <<block, global dir, step>>
Neigh(K, per, orient, b, ax, sd) ==
  LET d == AxisDir(orient[FaceNo(K, b) + 1], ax)
      step == IF sd = 1 THEN d[2] ELSE -d[2]
      cc == b[d[1]] + step
      inside == cc >= 0 /\ cc < K[d[1]]
  IN IF ~inside /\ ~per[d[1]] THEN <<>>
     ELSE <<[b EXCEPT ![d[1]] = Mod(cc, K[d[1]])], d[1], step>>

\* derived link: [face, axis (1 or 2), rev, mirrored] or NoLink2
NoLink2 == [face |-> -1, axis |-> 0, rev |-> FALSE, mirrored |-> FALSE]
DLink(K, per, orient, b, ax, sd) ==
  LET nb == Neigh(K, per, orient, b, ax, sd) IN
  IF nb = <<>> THEN NoLink2 ELSE
  LET B == nb[1]  ga == nb[2]  step == nb[3]
      gB == orient[FaceNo(K, B) + 1]
      bx == CHOOSE x \in {1, 2} : AxisDir(gB, x)[1] = ga
      sb == AxisDir(gB, bx)[2]
      sideB == IF sb = -step THEN 1 ELSE 0
      sta == AxisDir(orient[FaceNo(K, b) + 1], 3 - ax)[2]
      stb == AxisDir(gB, 3 - bx)[2]
  IN [face |-> FaceNo(K, B), axis |-> bx, rev |-> (sd = sideB), mirrored |-> (sta # stb)]
Blocks(K) == {<<x, y>> : x \in 0..(K[1] - 1), y \in 0..(K[2] - 1)}
\* the face_connections format can say "mirrored along the edge" only as: axis-swapping and not reversed
Expressible(K, per, orient) == \A b \in Blocks(K), ax \in {1, 2}, sd \in {0, 1} :
   LET l == DLink(K, per, orient, b, ax, sd) IN l.face = -1 \/ (l.mirrored <=> (l.axis # ax /\ ~l.rev))

\* global cell seen at local (possibly extended) index (i, j) of block b: <<gx, gy>>, or <<-1, -1>> beyond an open edge
Window(K, N, per, orient, b, i, j) ==
  LET pq == Loc2Glob(N, orient[FaceNo(K, b) + 1], i, j)
      gx == b[1] * N + pq[1]
      gy == b[2] * N + pq[2]
      okx == per[1] \/ (gx >= 0 /\ gx < K[1] * N)
      oky == per[2] \/ (gy >= 0 /\ gy < K[2] * N)
  IN IF okx /\ oky THEN <<Mod(gx, K[1] * N), Mod(gy, K[2] * N)>> ELSE <<-1, -1>>
=============================================================================
