----------------------------- MODULE MetricsInd -----------------------------
(* The registry invariant of C16 as an INDUCTIVE invariant, discharged by       *)
(* Apalache for every pool of at most 8 variables with an arbitrary assignment  *)
(* of variables to slots, and for EVERY registry satisfying the invariant (not  *)
(* only the reachable ones).  The registry of one axis set is abstracted to the *)
(* set of registered variables (the order of the list plays no role in the      *)
(* invariant): registering v replaces the occupant of v's slot when overwrite   *)
(* is set, is refused when the slot is occupied and overwrite is not set, and   *)
(* adds v otherwise.  Invariants: at most one variable per slot; a refused      *)
(* registration changes nothing; after an accepted one the slot holds v.        *)
EXTENDS Integers, FiniteSets, Apalache

CONSTANTS
  \* @type: Set(Str);
  Vars,
  \* @type: Str -> Str;
  SlotOf

VARIABLES
  \* @type: Set(Str);
  reg,
  \* @type: Str;
  lastVar,
  \* @type: Bool;
  lastRefused

\* @type: () => Bool;
CInit == /\ Vars = Gen(8)
         /\ SlotOf = Gen(8)
         /\ DOMAIN SlotOf = Vars

OneVarPerSlot == \A x \in reg : \A y \in reg : x # y => SlotOf[x] # SlotOf[y]
TypeOK == reg \subseteq Vars /\ lastVar \in Vars \cup {""}
Holds == (lastVar # "" /\ ~lastRefused) => lastVar \in reg
IndInv == TypeOK /\ OneVarPerSlot /\ Holds

Init == reg = {} /\ lastVar = "" /\ lastRefused = FALSE
IndInit == reg = Gen(8) /\ lastVar \in Vars \cup {""} /\ lastRefused \in BOOLEAN /\ IndInv

Occupied(v) == \E x \in reg : SlotOf[x] = SlotOf[v]
Register(v, ow) ==
  /\ lastVar' = v
  /\ IF Occupied(v) /\ ~ow
     THEN lastRefused' = TRUE /\ UNCHANGED reg
     ELSE /\ lastRefused' = FALSE
          /\ reg' = {x \in reg : SlotOf[x] # SlotOf[v]} \cup {v}
Next == \E v \in Vars, ow \in BOOLEAN : Register(v, ow)
=============================================================================
