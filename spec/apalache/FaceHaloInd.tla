---------------------------- MODULE FaceHaloInd ----------------------------
(* The link rule of C03 / C04 / C05 for EVERY face size.                       *)
(*                                                                             *)
(* MC_FaceTopology lets TLC enumerate the decompositions with faces of N <= 3  *)
(* cells; here N, the halo depth and the position along the edge are unknown   *)
(* integers (1 <= depth <= N, 0 <= t < N) and Apalache discharges the same     *)
(* statements symbolically, for every Kx x Ky <= 3 x 3 decomposition, every    *)
(* orientation of every face and every choice of open / periodic directions:   *)
(*   HaloOK     the documented source cell of a halo cell is the cell of the   *)
(*              undivided domain that lies there;                              *)
(*   Symmetric  linked faces see each other through mutually inverse maps;     *)
(*   RecipOK    derived tables are reciprocal.                                 *)
(* The definitions are those of FaceTopology.tla written in Apalache's typed   *)
(* fragment (records instead of mixed tuples, case distinctions instead of     *)
(* products and remainders of unknowns); MC_FaceHaloEq.tla lets TLC check that *)
(* the two sets of definitions agree on all small instances.                   *)
EXTENDS Integers

CONSTANTS
  \* @type: Int;
  Kx,
  \* @type: Int;
  Ky,
  \* @type: Int;
  N,
  \* @type: Int;
  Dk,
  \* @type: Int;
  T

VARIABLES
  \* @type: Int -> { s: Int, fx: Int, fy: Int };
  orient,
  \* @type: Int -> Bool;
  per

CInit == /\ Kx \in 1..3 /\ Ky \in 1..3
         /\ N \in Int /\ Dk \in Int /\ T \in Int
         /\ N >= 1 /\ Dk >= 1 /\ Dk <= N /\ T >= 0 /\ T < N

D4 == [s : {0, 1}, fx : {0, 1}, fy : {0, 1}]
Init == orient \in [1..9 -> D4] /\ per \in [1..2 -> BOOLEAN]
Next == UNCHANGED <<orient, per>>

\* products with the unknown N and the unknown Kx, as case distinctions on the (small) other factor
MulN(c) == IF c = 0 THEN 0 ELSE IF c = 1 THEN N ELSE IF c = 2 THEN N + N ELSE N + N + N
MulKx(c) == IF c = 0 THEN 0 ELSE IF c = 1 THEN Kx ELSE Kx + Kx
KOf(d) == IF d = 1 THEN Kx ELSE Ky
Wrap(x, M) == IF x < 0 THEN x + M ELSE IF x >= M THEN x - M ELSE x        \* x within one period of 0..M-1

FlipI(c, x) == IF c = 1 THEN N - 1 - x ELSE x
\* @type: ({ s: Int, fx: Int, fy: Int }, Int, Int) => <<Int, Int>>;
Loc2Glob(g, i, j) == <<FlipI(g.fx, IF g.s = 1 THEN j ELSE i), FlipI(g.fy, IF g.s = 1 THEN i ELSE j)>>
\* global direction (1 = x, 2 = y) and sign of local axis number ax
\* @type: ({ s: Int, fx: Int, fy: Int }, Int) => Int;
DirOf(g, ax) == IF g.s = 0 THEN ax ELSE 3 - ax
\* @type: ({ s: Int, fx: Int, fy: Int }, Int) => Int;
SgnOf(g, ax) == IF DirOf(g, ax) = 1 THEN (IF g.fx = 1 THEN -1 ELSE 1) ELSE (IF g.fy = 1 THEN -1 ELSE 1)
FaceNo(bx, by) == MulKx(by) + bx
Blocks == {b \in (0..2) \X (0..2) : b[1] < Kx /\ b[2] < Ky}

\* derived link of side sd of local axis ax of block (bx, by)
\* @type: (Int, Int, Int, Int) => { face: Int, nbx: Int, nby: Int, axis: Int, rev: Bool, mirrored: Bool };
DLink(bx, by, ax, sd) ==
  LET g == orient[FaceNo(bx, by) + 1]
      d == DirOf(g, ax)
      step == IF sd = 1 THEN SgnOf(g, ax) ELSE -SgnOf(g, ax)
      cc == (IF d = 1 THEN bx ELSE by) + step
      inside == cc >= 0 /\ cc < KOf(d)
      cw == Wrap(cc, KOf(d))
      nbx == IF d = 1 THEN cw ELSE bx
      nby == IF d = 2 THEN cw ELSE by
      gB == orient[FaceNo(nbx, nby) + 1]
      lx == IF DirOf(gB, 1) = d THEN 1 ELSE 2
      sideB == IF SgnOf(gB, lx) = -step THEN 1 ELSE 0
  IN IF ~inside /\ ~per[d]
     THEN [face |-> -1, nbx |-> 0, nby |-> 0, axis |-> 0, rev |-> FALSE, mirrored |-> FALSE]
     ELSE [face |-> FaceNo(nbx, nby), nbx |-> nbx, nby |-> nby, axis |-> lx, rev |-> (sd = sideB),
           mirrored |-> (SgnOf(g, 3 - ax) # SgnOf(gB, 3 - lx))]

Expressible == \A b \in Blocks, ax \in {1, 2}, sd \in {0, 1} :
   LET l == DLink(b[1], b[2], ax, sd) IN l.face = -1 \/ (l.mirrored <=> (l.axis # ax /\ ~l.rev))

\* global cell seen at local (possibly extended by at most N) index (i, j) of block (bx, by)
\* @type: (Int, Int, Int, Int) => <<Int, Int>>;
Window(bx, by, i, j) ==
  LET pq == Loc2Glob(orient[FaceNo(bx, by) + 1], i, j)
      gx == MulN(bx) + pq[1]
      gy == MulN(by) + pq[2]
      okx == per[1] \/ (gx >= 0 /\ gx < MulN(Kx))
      oky == per[2] \/ (gy >= 0 /\ gy < MulN(Ky))
  IN IF okx /\ oky THEN <<Wrap(gx, MulN(Kx)), Wrap(gy, MulN(Ky))>> ELSE <<-1, -1>>

\* the documented rule (FaceTopology!HaloSo / HaloSt with the axis as a number)
HaloSo(rev, sd, k) == IF (sd = 1) # rev THEN k - 1 ELSE N - k
HaloSt(laxis, rev, a, t) == IF laxis # a /\ ~rev THEN N - 1 - t ELSE t

HaloOK == Expressible =>
  \A b \in Blocks, ax \in {1, 2}, sd \in {0, 1} :
     LET l == DLink(b[1], b[2], ax, sd) IN
     l.face = -1 \/
     LET so == HaloSo(l.rev, sd, Dk)
         st == HaloSt(l.axis, l.rev, ax, T)
         o == IF sd = 1 THEN N - 1 + Dk ELSE -Dk
     IN Window(l.nbx, l.nby, IF l.axis = 1 THEN so ELSE st, IF l.axis = 1 THEN st ELSE so)
          = Window(b[1], b[2], IF ax = 1 THEN o ELSE T, IF ax = 1 THEN T ELSE o)

Symmetric == Expressible =>
  \A b \in Blocks, ax \in {1, 2}, sd \in {0, 1} :
     LET l == DLink(b[1], b[2], ax, sd) IN
     l.face = -1 \/
     LET st == HaloSt(l.axis, l.rev, ax, T)
         bsd == IF l.rev THEN sd ELSE 1 - sd
         back == DLink(l.nbx, l.nby, l.axis, bsd)
     IN /\ back.face = FaceNo(b[1], b[2]) /\ back.axis = ax
        /\ HaloSt(back.axis, back.rev, l.axis, st) = T
        /\ HaloSo(back.rev, bsd, 1) = (IF sd = 1 THEN N - 1 ELSE 0)

\* every derived link is answered on the side the reverse flag implies, with the same flag (C17's notion)
RecipOK ==
  \A b \in Blocks, ax \in {1, 2}, sd \in {0, 1} :
     LET l == DLink(b[1], b[2], ax, sd) IN
     l.face = -1 \/
     LET back == DLink(l.nbx, l.nby, l.axis, IF l.rev THEN sd ELSE 1 - sd)
     IN back.face = FaceNo(b[1], b[2]) /\ back.axis = ax /\ back.rev = l.rev

AllOK == HaloOK /\ Symmetric /\ RecipOK

\* non-vacuity: each of these must be REFUTED
\* (a) the rule with the source one cell further from the edge
HaloOffByOne == Expressible =>
  \A b \in Blocks, ax \in {1, 2}, sd \in {0, 1} :
     LET l == DLink(b[1], b[2], ax, sd) IN
     l.face = -1 \/
     LET so == HaloSo(l.rev, sd, Dk + 1)
         st == HaloSt(l.axis, l.rev, ax, T)
         o == IF sd = 1 THEN N - 1 + Dk ELSE -Dk
     IN Window(l.nbx, l.nby, IF l.axis = 1 THEN so ELSE st, IF l.axis = 1 THEN st ELSE so)
          = Window(b[1], b[2], IF ax = 1 THEN o ELSE T, IF ax = 1 THEN T ELSE o)
\* (b) the rule without the tangential mirror of axis-swapping non-reversed links
HaloNoMirror == Expressible =>
  \A b \in Blocks, ax \in {1, 2}, sd \in {0, 1} :
     LET l == DLink(b[1], b[2], ax, sd) IN
     l.face = -1 \/
     LET so == HaloSo(l.rev, sd, Dk)
         o == IF sd = 1 THEN N - 1 + Dk ELSE -Dk
     IN Window(l.nbx, l.nby, IF l.axis = 1 THEN so ELSE T, IF l.axis = 1 THEN T ELSE so)
          = Window(b[1], b[2], IF ax = 1 THEN o ELSE T, IF ax = 1 THEN T ELSE o)
\* (c) no expressible decomposition has a reversed axis-swapping link
NoReversedSwap == ~(Expressible /\ \E b \in Blocks, ax \in {1, 2}, sd \in {0, 1} :
                      LET l == DLink(b[1], b[2], ax, sd) IN l.face # -1 /\ l.rev /\ l.axis # ax)
=============================================================================
