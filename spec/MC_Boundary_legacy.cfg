SPECIFICATION Spec
CONSTANT Legacy = TRUE
INVARIANT ConstructOK
CHECK_DEADLOCK FALSE
