---------------------------- MODULE MetricSelect ----------------------------
(* C10: which metric an array gets for a set of axes.  A registry is a sequence *)
(* of entries [key (sequence of axis names), var, dims, shape, flat], in the    *)
(* order the variables were registered.  The rule leaves choices open (any one  *)
(* variable may be interpolated; any registered partition with the largest      *)
(* first block), so Allowed(...) is a SET of metrics and an observation is       *)
(* accepted when it equals one of them.  An interpolated metric is carried as   *)
(* the integer array of neighbour sums together with its number m of halvings   *)
(* (true value = arr / 2^m).                                                     *)
EXTENDS Calls, FiniteSetsExt

KeySet(e) == SeqToSet(e.key)
Exact(R, S) == {j \in DOMAIN R : KeySet(R[j]) = S}
AtPos(e, adims) == SeqToSet(e.dims) \subseteq SeqToSet(adims)

\* set partitions of S into two or more blocks
Partitions(S) == {P \in SUBSET (SUBSET S \ {{}}) :
                    /\ Cardinality(P) >= 2 /\ UNION P = S
                    /\ \A A, B \in P : A # B => A \cap B = {}}
Registered(R, P) == \A B \in P : Exact(R, B) # {}
MaxBlock(P) == Max({Cardinality(B) : B \in P})
BestPartitions(R, S) ==
  LET reg == {P \in Partitions(S) : Registered(R, P)} IN
  {P \in reg : \A Q \in reg : MaxBlock(Q) <= MaxBlock(P)}

\* variables that may serve a block: the one at the array's position if there is one, else any of them
BlockChoices(R, B, adims) ==
  LET ex == Exact(R, B)
      here == {j \in ex : AtPos(R[j], adims)}
  IN IF here # {} THEN here ELSE ex

\* a metric interpolated to the array's position along every grid axis where both carry a dimension at
\* different positions (nearest-value extension); returns [dims, arr, halvings]
RECURSIVE InterpAxes(_, _, _, _, _, _)
InterpAxes(grid, a, dims, adims, k, m) ==
  IF k > Len(grid.axes) THEN [dims |-> dims, arr |-> a, m |-> m]
  ELSE LET ax == grid.axes[k]
           pe == PosIn(ax, dims)
           pa == PosIn(ax, adims)
       IN IF pe = {} \/ pa = {} \/ pe = pa THEN InterpAxes(grid, a, dims, adims, k + 1, m)
          ELSE LET from == CHOOSE p \in pe : TRUE
                   to == CHOOSE p \in pa : TRUE
                   d == IndexOf(dims, DimOfPos(ax, from))
               IN InterpAxes(grid, GeoStencil(a, d, "interp", from, to, "extend", 0),
                             ReplaceDim(dims, DimOfPos(ax, from), DimOfPos(ax, to)), adims, k + 1, m + 1)
\* does interpolation only use the eight defined shifts?
Interpolable(grid, dims, adims) == \A k \in DOMAIN grid.axes :
  LET pe == PosIn(grid.axes[k], dims)  pa == PosIn(grid.axes[k], adims) IN
  pe = {} \/ pa = {} \/ pe = pa \/ \A f \in pe, t \in pa : ValidShift(f, t)

\* value of an entry at the array's position: [dims, arr, m] with true value arr / 2^m
EntryValue(grid, e, adims) ==
  LET iv == InterpAxes(grid, [shape |-> e.shape, flat |-> e.flat], e.dims, adims, 1, 0)
  IN [dims |-> iv.dims, arr |-> iv.arr, m |-> iv.m]

\* product of several metrics (a function from registry indices to values: two entries may hold equal values, so a set
\* of values would not do), laid out on the array's dimensions (in the array's order)
ProductOf(vals, adims, ashape) ==
  LET used == {d \in SeqToSet(adims) : \E j \in DOMAIN vals : d \in SeqToSet(vals[j].dims)}
      keep == SelectSeq([k \in 1..Len(adims) |-> k], LAMBDA k : adims[k] \in used)
      odims == [q \in 1..Len(keep) |-> adims[keep[q]]]
      oshape == [q \in 1..Len(keep) |-> ashape[keep[q]]]
      RECURSIVE Mul(_, _)
      Mul(S, idx) == IF S = {} THEN 1
                     ELSE LET j == CHOOSE x \in S : TRUE  v == vals[j] IN
                          Get(v.arr, [q \in 1..Len(v.dims) |-> idx[IndexOf(odims, v.dims[q])]]) * Mul(S \ {j}, idx)
      RECURSIVE SumM(_)
      SumM(S) == IF S = {} THEN 0 ELSE LET j == CHOOSE x \in S : TRUE IN vals[j].m + SumM(S \ {j})
  IN [dims |-> odims, arr |-> Build(oshape, LAMBDA idx : Mul(DOMAIN vals, idx)), m |-> SumM(DOMAIN vals)]

\* every way of picking one variable per block
RECURSIVE Picks(_, _, _)
Picks(R, blocks, adims) ==
  IF blocks = {} THEN {{}}
  ELSE LET B == CHOOSE x \in blocks : TRUE IN
       {p \cup {j} : p \in Picks(R, blocks \ {B}, adims), j \in BlockChoices(R, B, adims)}

\* all metrics the rule allows for an array on adims/ashape and the requested axis set S; {} means KeyError
AllowedPicks(R, S, adims) ==
  IF Exact(R, S) # {} THEN {{j} : j \in BlockChoices(R, S, adims)}
  ELSE UNION {Picks(R, P, adims) : P \in BestPartitions(R, S)}
MetricOfPick(grid, R, pick, adims, ashape) ==
  ProductOf([j \in pick |-> EntryValue(grid, R[j], adims)], adims, ashape)
PickInterpolates(grid, R, pick, adims) == \E j \in pick : ~AtPos(R[j], adims)
PickInterpolable(grid, R, pick, adims) == \A j \in pick : Interpolable(grid, R[j].dims, adims)
=============================================================================
