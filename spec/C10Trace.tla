------------------------------ MODULE C10Trace ------------------------------
(* Trace validation for C10: get_metric answers and the metric-aware operators. *)
(* Rationals are pairs <<num, den>>, <<0, 0>> standing for NaN.                  *)
EXTENDS MetricSelect, Json, IOUtils, TLC

Tr == ndJsonDeserialize(IOEnv.TRACE_FILE)
VARIABLE i

Arr0(x) == [shape |-> x.shape, flat |-> x.flat]
RatEq(a, b) == IF b[2] = 0 THEN a[2] = 0 ELSE a[2] # 0 /\ a[1] * b[2] = b[1] * a[2]
RatSeqEq(obs, exp) == Len(obs) = Len(exp) /\ \A k \in DOMAIN obs : RatEq(obs[k], exp[k])
Scale(a, f) == [shape |-> a.shape, flat |-> [k \in DOMAIN a.flat |-> f * a.flat[k]]]

\* the unique metric of a simple registry (drivers of the operator events register exactly one candidate)
TheMetric(r, S, adims, ashape) ==
  LET picks == AllowedPicks(r.reg, S, adims) IN MetricOfPick(r.grid, r.reg, CHOOSE p \in picks : TRUE, adims, ashape)

\* operator events use registries that need no interpolation (m = 0)
PlainMetric(r, S, adims, ashape) == TheMetric(r, S, adims, ashape)

VGetMetric(r) ==
  LET S == SeqToSet(r.axes)
      picks == AllowedPicks(r.reg, S, r.adims)
      usable == {p \in picks : PickInterpolable(r.grid, r.reg, p, r.adims)}
  IN IF picks = {} THEN (IF r.out.k = "array" THEN "returned-a-metric-nothing-allows" ELSE "ok")
     ELSE IF usable # picks THEN "ok"                      \* needs a shift the library does not define: unconstrained
     ELSE IF r.out.k # "array" THEN "raised-although-a-metric-exists"
     ELSE IF ~(SeqToSet(r.out.dims) \subseteq SeqToSet(r.adims)) THEN "does-not-broadcast"
     ELSE LET match == {p \in usable : LET m == MetricOfPick(r.grid, r.reg, p, r.adims, r.ashape) IN
                                       m.dims = r.out.dims /\
                                       RatSeqEq(r.out.flat, [k \in DOMAIN m.arr.flat |-> <<m.arr.flat[k], 2 ^ m.m>>])} IN
          IF match = {} THEN "wrong-metric"
          ELSE IF \A p \in match : PickInterpolates(r.grid, r.reg, p, r.adims) /\ ~r.warned THEN "interpolated-without-warning"
          ELSE "ok"

\* integrate = sum over the axes' dimensions of data * metric
VIntegrate(r) ==
  IF r.out.k # "array" THEN "raised-on-valid-call"
  ELSE LET a == Arr0(r.args.data)
           dims == r.args.data.dims
           m == TheMetric(r, SeqToSet(r.args.axis), dims, a.shape)
           w == MulBroadcast(a, dims, m.arr, m.dims)
           axd == {d \in SeqToSet(dims) : \E k \in DOMAIN r.args.axis : d \in AxisDims(AxisOf(r.grid, r.args.axis[k]))}
           s == SumOver(w, dims, axd)
       IN IF r.out.dims # s.dims THEN "dims" ELSE IF r.out.flat # s.arr.flat THEN "integrate-values" ELSE "ok"

\* average = sum(data * metric over valid data) / sum(metric over valid data)
VAverage(r) ==
  IF r.out.k # "array" THEN "raised-on-valid-call"
  ELSE LET a == Arr0(r.args.data)
           v == [shape |-> a.shape, flat |-> r.args.valid]
           dims == r.args.data.dims
           m == TheMetric(r, SeqToSet(r.args.axis), dims, a.shape)
           w == MulBroadcast(MulBroadcast(a, dims, v, dims), dims, m.arr, m.dims)
           mv == MulBroadcast(v, dims, m.arr, m.dims)
           axd == {d \in SeqToSet(dims) : \E k \in DOMAIN r.args.axis : d \in AxisDims(AxisOf(r.grid, r.args.axis[k]))}
           num == SumOver(w, dims, axd)
           den == SumOver(mv, dims, axd)
       IN IF r.out.dims # num.dims THEN "dims"
          ELSE IF ~RatSeqEq(r.out.flat, [k \in DOMAIN num.arr.flat |-> <<num.arr.flat[k], den.arr.flat[k]>>]) THEN "average-values"
          ELSE "ok"

\* derivative = diff / metric at the result's position
VDerivative(r) ==
  IF r.out.k # "array" THEN "raised-on-valid-call"
  ELSE LET e == Expected([r EXCEPT !.op = "diff"])
           m == PlainMetric(r, SeqToSet(r.args.axis), e.dims, e.arr.shape)
           mb == MulBroadcast([shape |-> e.arr.shape, flat |-> [k \in DOMAIN e.arr.flat |-> 1]], e.dims, m.arr, m.dims)
       IN IF r.out.dims # e.dims THEN "dims"
          ELSE IF ~RatSeqEq(r.out.flat, [k \in DOMAIN e.arr.flat |-> <<e.arr.flat[k], mb.flat[k]>>]) THEN "derivative-values"
          ELSE "ok"

\* metric_weighted op = op(data * metric at input position) / metric at result position (one axis)
VWeighted(r) ==
  IF r.out.k # "array" THEN "raised-on-valid-call"
  ELSE LET a == Arr0(r.args.data)
           dims == r.args.data.dims
           S == SeqToSet(r.args.weight)
           mi == PlainMetric(r, S, dims, a.shape)
           w == MulBroadcast(a, dims, mi.arr, mi.dims)
           rw == [r EXCEPT !.args.data.flat = w.flat]
           e == Expected(rw)
           mo == PlainMetric(r, S, e.dims, e.arr.shape)
           mb == MulBroadcast([shape |-> e.arr.shape, flat |-> [k \in DOMAIN e.arr.flat |-> 1]], e.dims, mo.arr, mo.dims)
           sc == IF r.op = "interp" THEN 2 ELSE 1
       IN IF r.out.dims # e.dims THEN "dims"
          \* interp is carried as a sum: the factor 2 goes to the denominator
          ELSE IF ~RatSeqEq(r.out.flat, [k \in DOMAIN e.arr.flat |-> <<e.arr.flat[k], sc * mb.flat[k]>>]) THEN "weighted-values"
          ELSE "ok"

Verdict(r) == CASE r.ev = "GetMetric" -> VGetMetric(r)
                [] r.ev = "Integrate" -> VIntegrate(r)
                [] r.ev = "Average" -> VAverage(r)
                [] r.ev = "Derivative" -> VDerivative(r)
                [] r.ev = "Weighted" -> VWeighted(r)
                [] OTHER -> "unknown-event"
Init == i = 1
Next == /\ i <= Len(Tr)
        /\ LET v == Verdict(Tr[i]) IN IF v = "ok" THEN TRUE ELSE PrintT(<<"V", Tr[i].id, v>>)
        /\ i' = i + 1
Spec == Init /\ [][Next]_i
=============================================================================
