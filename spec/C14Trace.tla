------------------------------ MODULE C14Trace ------------------------------
(* Trace validation for C14: Grid(ds) built from metadata alone has exactly the *)
(* axes and position -> dimension assignment the tables prescribe; SGRID wins   *)
(* when declared; user coords together with parsable metadata are refused.      *)
EXTENDS Autoparse, Json, IOUtils, TLC
Tr == ndJsonDeserialize(IOEnv.TRACE_FILE)
VARIABLE i

VAutoparse(r) ==
  IF r.user_coords THEN (IF r.out.k = "grid" THEN "merged-user-coords-with-parsed" ELSE "ok")
  ELSE IF r.out.k # "grid" THEN "raised-on-valid-metadata"
  ELSE LET obs == {<<r.out.coords[k][1], r.out.coords[k][2], r.out.coords[k][3]>> : k \in DOMAIN r.out.coords}
           exp == ExpectedCoords(r.desc) IN
       IF {t[1] : t \in obs} # {t[1] : t \in exp} THEN "axes"
       ELSE IF obs # exp THEN "position-assignment"
       ELSE "ok"
Verdict(r) == IF r.ev = "Autoparse" THEN VAutoparse(r) ELSE "unknown-event"
Init == i = 1
Next == /\ i <= Len(Tr)
        /\ LET v == Verdict(Tr[i]) IN IF v = "ok" THEN TRUE ELSE PrintT(<<"V", Tr[i].id, v>>)
        /\ i' = i + 1
Spec == Init /\ [][Next]_i
=============================================================================
