------------------------------ MODULE C19Trace ------------------------------
(* Trace validation for C19: coordinates, name and label-independence of the    *)
(* results of diff / interp / min / max / cumsum.                               *)
EXTENDS Coords, Calls, Json, IOUtils, TLC
Tr == ndJsonDeserialize(IOEnv.TRACE_FILE)
VARIABLE i

VCoords(r) ==
  IF r.out.k # "array" THEN "raised-on-valid-call"
  ELSE LET e == Expected(r)
           names == {r.out.coordinfo[k][1] : k \in DOMAIN r.out.coordinfo}
           want == ExpectedCoordNames(r.dscoords, e.dims, r.args.keep_coords)
           abandoned == SeqToSet(r.args.data.dims) \ SeqToSet(e.dims)
       IN IF r.out.dims # e.dims THEN "dims"
          ELSE IF r.out.flat # e.arr.flat THEN "values-depend-on-labels-or-wrong"
          ELSE IF \E k \in DOMAIN r.out.coordinfo : SeqToSet(r.out.coordinfo[k][2]) \cap abandoned # {} THEN "stale-coordinate-of-abandoned-dimension"
          ELSE IF \E d \in SeqToSet(e.dims) \ SeqToSet(r.args.data.dims) :
                    (d \in want) /\ ~(d \in names) THEN "new-dimension-coordinate-missing"
          ELSE IF \E d \in SeqToSet(e.dims) \ SeqToSet(r.args.data.dims) :
                    d \in names /\ d \notin {r.dscoords[k].name : k \in DOMAIN r.dscoords} THEN "new-dimension-coordinate-not-from-the-grid-dataset"
          ELSE IF \E c \in want : c \notin names THEN "coordinate-missing"
          ELSE IF \E c \in names : c \notin want /\ c \in {r.dscoords[k].name : k \in DOMAIN r.dscoords} THEN "coordinate-not-expected"
          ELSE IF \E k \in DOMAIN r.out.coordinfo : r.out.coordinfo[k][1] \in want /\ ~r.out.coordinfo[k][3] THEN "coordinate-values"
          ELSE IF \E k \in DOMAIN r.out.coordinfo : r.out.coordinfo[k][1] \in want /\ ~r.out.coordinfo[k][4] THEN "coordinate-attributes"
          ELSE IF r.out.name # r.args.name THEN "result-name"
          ELSE "ok"
Verdict(r) == IF r.ev = "Coords" THEN VCoords(r) ELSE "unknown-event"
Init == i = 1
Next == /\ i <= Len(Tr)
        /\ LET v == Verdict(Tr[i]) IN IF v = "ok" THEN TRUE ELSE PrintT(<<"V", Tr[i].id, v>>)
        /\ i' = i + 1
Spec == Init /\ [][Next]_i
=============================================================================
