------------------------------ MODULE Boundary ------------------------------
(* C02.  Which boundary rule and fill value are in force for an axis: the       *)
(* per-call argument, else the Grid-level setting, else periodic wrap for a     *)
(* periodic axis and fill with 0 for a non-periodic one.  Arguments are tagged  *)
(* records: [k |-> "none"], [k |-> "s", v |-> scalar], [k |-> "m", v |-> pairs] *)
(* (a mapping that may name only some axes); `periodic` is [k |-> "b", v |->    *)
(* BOOLEAN], [k |-> "l", v |-> <<axis names>>] or [k |-> "m", v |-> pairs].     *)
EXTENDS Arr

Given(arg, ax) == arg.k = "s" \/ (arg.k = "m" /\ HasKey(arg.v, ax))
ValueOf(arg, ax) == IF arg.k = "s" THEN arg.v ELSE Lookup(arg.v, ax, "none")

\* an axis is non-periodic if `periodic` is FALSE or is a list that does not name it
Periodic(p, ax) == CASE p.k = "b" -> p.v
                     [] p.k = "l" -> ax \in SeqToSet(p.v)
                     [] p.k = "m" -> Lookup(p.v, ax, TRUE)
\* a `periodic` mapping that omits the axis is outside the property's statement
PeriodicDefined(p, ax) == p.k # "m" \/ HasKey(p.v, ax)

GridRule(ctor, ax) == IF Given(ctor.boundary, ax) THEN ValueOf(ctor.boundary, ax)
                      ELSE IF Periodic(ctor.periodic, ax) THEN "periodic" ELSE "fill"
GridFill(ctor, ax) == IF Given(ctor.fill_value, ax) THEN ValueOf(ctor.fill_value, ax) ELSE 0

RuleInForce(ctor, callB, ax) == IF Given(callB, ax) THEN ValueOf(callB, ax) ELSE GridRule(ctor, ax)
FillInForce(ctor, callF, ax) == IF Given(callF, ax) THEN ValueOf(callF, ax) ELSE GridFill(ctor, ax)
=============================================================================
