SPECIFICATION Spec
CONSTANTS MaxN = 2
          T = 3
          HalfOpen = TRUE
INVARIANT Admissible
INVARIANT NonNegative
INVARIANT Conserves
INVARIANT Merges
CHECK_DEADLOCK FALSE
