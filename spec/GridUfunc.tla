------------------------------ MODULE GridUfunc ------------------------------
(* C11.  The protocol between apply_as_grid_ufunc / as_grid_ufunc and the user  *)
(* function: option binding, dummy-to-real axis identification, what each input *)
(* looks like when the function receives it, and where the outputs live.        *)
EXTENDS Calls

\* ---- options: a value given at call time overrides one bound at definition time, else the default
\* ("xnone": None passed explicitly at call time - a given value like any other: it overrides the bound one and means
\* "whatever the grid says")
Effective(callOpt, defOpt, dflt) == IF callOpt.k = "xnone" THEN dflt
                                    ELSE IF callOpt.k # "none" THEN callOpt ELSE IF defOpt.k # "none" THEN defOpt ELSE dflt

\* ---- dummy names of the input side, in order of first appearance, are bound to the real axes named in
\* `axis` (one sequence of real names per input), in order of first appearance
RECURSIVE DistinctSeq(_, _)
DistinctSeq(s, acc) == IF s = <<>> THEN acc ELSE DistinctSeq(Tail(s), IF Head(s) \in SeqToSet(acc) THEN acc ELSE Append(acc, Head(s)))
RECURSIVE FlattenSeq(_)
FlattenSeq(ss) == IF ss = <<>> THEN <<>> ELSE Head(ss) \o FlattenSeq(Tail(ss))
DummyNames(ins) == DistinctSeq(FlattenSeq([a \in DOMAIN ins |-> [k \in DOMAIN ins[a] |-> ins[a][k][1]]]), <<>>)
RealNames(axis) == DistinctSeq(FlattenSeq(axis), <<>>)
RealOf(ins, axis, dummy) == RealNames(axis)[IndexOf(DummyNames(ins), dummy)]
BindingOK(ins, axis) == /\ Len(ins) = Len(axis) /\ \A a \in DOMAIN ins : Len(ins[a]) = Len(axis[a])
                        /\ Len(DummyNames(ins)) = Len(RealNames(axis))

\* ---- what input number a looks like on arrival: padded on every axis boundary_width names (given by dummy
\* name), then laid out as (its other dimensions in their order, signature axes of this input in signature order)
RECURSIVE PadAll(_, _, _, _, _, _, _, _)
PadAll(grid, arr, dims, ws, ins, axis, rules, k) ==    \* ws: sequence of <<dummy, lo, hi>>; rules: function real axis -> <<rule, fill>>
  IF k > Len(ws) THEN arr
  ELSE LET real == RealOf(ins, axis, ws[k][1])
           ax == AxisOf(grid, real)
           d == IndexOf(dims, DimOfPos(ax, ThePos(ax, dims)))
       IN PadAll(grid, PadDim(arr, d, ws[k][2], ws[k][3], rules[real][1], rules[real][2]), dims, ws, ins, axis, rules, k + 1)
CoreDims(grid, arg, axisArg) == [k \in DOMAIN arg |-> DimOfPos(AxisOf(grid, axisArg[k]), arg[k][2])]
ArrivalDims(grid, dims, arg, axisArg) ==
  LET core == CoreDims(grid, arg, axisArg) IN SelectSeq(dims, LAMBDA d : d \notin SeqToSet(core)) \o core

\* ---- where output number o lives: the broadcast (non-core) dimensions, then the output positions of the real
\* axes bound to its dummy names
OutCoreDims(grid, ins, axis, outArg) == [k \in DOMAIN outArg |-> DimOfPos(AxisOf(grid, RealOf(ins, axis, outArg[k][1])), outArg[k][2])]
=============================================================================
