SPECIFICATION Spec
CONSTANT MaxIn = 1
INVARIANT RoundTrip
INVARIANT Consistent
INVARIANT PrintBack
CHECK_DEADLOCK FALSE
