------------------------------ MODULE C12Trace ------------------------------
(* C12.  Every result is a function of the arguments alone.  The trace holds    *)
(* the same calls executed in fresh interpreters under different string-hash    *)
(* seeds and with the face-link table / metrics mapping inserted in different   *)
(* orders; the trace specification remembers the first observation of each call *)
(* and requires every later one to be identical (values, dimensions, axis       *)
(* order, accept/reject).                                                        *)
EXTENDS Integers, Sequences, FiniteSets, Json, IOUtils, TLC
Tr == ndJsonDeserialize(IOEnv.TRACE_FILE)
VARIABLES i, seen

Verdict(r) == IF r.call \in DOMAIN seen /\ seen[r.call] # r.obs THEN "differs-between-runs" ELSE "ok"
Init == i = 1 /\ seen = <<>>
Next == /\ i <= Len(Tr)
        /\ LET v == Verdict(Tr[i]) IN IF v = "ok" THEN TRUE ELSE PrintT(<<"V", Tr[i].id, v>>)
        /\ seen' = IF Tr[i].call \in DOMAIN seen THEN seen ELSE [c \in DOMAIN seen \cup {Tr[i].call} |-> IF c = Tr[i].call THEN Tr[i].obs ELSE seen[c]]
        /\ i' = i + 1
Spec == Init /\ [][Next]_<<i, seen>>
=============================================================================
