----------------------------- MODULE FaceCalls -----------------------------
(* Reading a recorded pad / operator call on a face-connected grid.            *)
EXTENDS FaceTopology, GridModel

Arr0(x) == [shape |-> x.shape, flat |-> x.flat]

\* position in `dims` of the dimension that belongs to axis `axname`
DimIdxOfAxis(grid, dims, axname) ==
  LET ax == AxisOf(grid, axname) IN IndexOf(dims, DimOfPos(ax, ThePos(ax, dims)))

WidthOf(ws, a) == LET k == CHOOSE j \in DOMAIN ws \cup {0} : (j = 0 /\ ~\E m \in DOMAIN ws : ws[m][1] = a) \/ (j # 0 /\ ws[j][1] = a)
                  IN IF k = 0 THEN <<0, 0>> ELSE <<ws[k][2], ws[k][3]>>

\* axes the code pads: those that carry links in the table, plus those named in the widths
RECURSIVE Dedup(_, _)
Dedup(s, acc) == IF s = <<>> THEN acc ELSE Dedup(Tail(s), IF Head(s) \in SeqToSet(acc) THEN acc ELSE Append(acc, Head(s)))
PadAxes(r) == Dedup([k \in DOMAIN r.grid.faces.table |-> r.grid.faces.table[k][2]] \o [k \in DOMAIN r.args.widths |-> r.args.widths[k][1]], <<>>)

\* value of the padded array at output multi-index idx, for a given order of the pad axes
PaddedAt(r, idx, order) ==
  LET g == r.grid
      a == Arr0(r.args.data)
      dims == r.args.data.dims
      fcs == g.faces
      dF == IndexOf(dims, fcs.dim)
      allax == SeqToSet(order) \cup SeqToSet(fcs.axes)
      dOf == [x \in allax |-> DimIdxOfAxis(g, dims, x)]
      lo == [x \in allax |-> WidthOf(r.args.widths, x)[1]]
      c == [x \in allax |-> idx[dOf[x]] - lo[x]]
      N == AxisOf(g, fcs.axes[1]).n
      lens == [x \in allax |-> r.args.data.shape[dOf[x]]]
      Val(f2, c2) == Get(a, [d \in DOMAIN dims |->
                         IF d = dF THEN f2 ELSE IF \E x \in allax : dOf[x] = d
                                                THEN c2[CHOOSE x \in allax : dOf[x] = d] ELSE idx[d]])
      pa == Arr0(r.args.other)
      pdims == r.args.other.dims
      PVal(f2, c2) == Get(pa, [d \in DOMAIN pdims |->
                         IF pdims[d] = fcs.dim THEN f2
                         ELSE IF \E x \in allax : pdims[d] \in AxisDims(AxisOf(g, x))
                              THEN c2[CHOOSE x \in allax : pdims[d] \in AxisDims(AxisOf(g, x))]
                              ELSE idx[IndexOf(dims, pdims[d])]])
      rules == [x \in SeqToSet(order) |-> RuleInForce(g.ctor, r.args.boundary, x)]
      fills == [x \in SeqToSet(order) |-> FillInForce(g.ctor, r.args.fill_value, x)]
  IN Asm(Val, PVal, fcs.table, fcs.axes, idx[dF], c, N, lens, order, rules, fills, r.args.vaxis)

\* in how many pad axes does idx lie in the halo
HaloCountAt(r, idx, order) ==
  LET dims == r.args.data.dims
      N == AxisOf(r.grid, r.grid.faces.axes[1]).n
  IN Cardinality({k \in DOMAIN order :
        LET x == order[k]  d == DimIdxOfAxis(r.grid, dims, x)  i == idx[d] - WidthOf(r.args.widths, x)[1]
        IN i < 0 \/ i >= r.args.data.shape[d]})

PaddedShape(r) ==
  LET dims == r.args.data.dims IN
  [d \in DOMAIN dims |->
     LET hits == {k \in DOMAIN r.args.widths : DimIdxOfAxis(r.grid, dims, r.args.widths[k][1]) = d} IN
     IF hits = {} THEN r.args.data.shape[d]
     ELSE LET k == CHOOSE k \in hits : TRUE IN r.args.data.shape[d] + r.args.widths[k][2] + r.args.widths[k][3]]
=============================================================================
