SPECIFICATION Spec
CONSTANTS Guarded = TRUE
INVARIANT LandsOnLike
INVARIANT Idempotent
INVARIANT OthersAlone
INVARIANT OrderFree
INVARIANT KeepsOthers
CHECK_DEADLOCK FALSE
