----------------------------- MODULE Positions -----------------------------
(* The five staggered positions of an axis with n cells, on half-cell integer  *)
(* coordinates: cell i spans [2i, 2i+2], its centre is 2i+1.                    *)
EXTENDS Naturals, Integers, Sequences

PosWords == {"center", "left", "right", "inner", "outer"}
FacePos  == {"left", "right", "inner", "outer"}

\* number of points of position p on an axis of n cells
PLen(p, n) == CASE p = "center" -> n [] p = "left" -> n [] p = "right" -> n
                [] p = "inner" -> n - 1 [] p = "outer" -> n + 1

\* cell count implied by an array of length L at position p
CellsOf(p, L) == CASE p = "center" -> L [] p = "left" -> L [] p = "right" -> L
                   [] p = "inner" -> L + 1 [] p = "outer" -> L - 1

\* half-cell coordinate of point i (0-based) of position p
Coord(p, i) == CASE p = "center" -> 2 * i + 1 [] p = "left" -> 2 * i [] p = "right" -> 2 * i + 2
                 [] p = "inner" -> 2 * i + 2 [] p = "outer" -> 2 * i

\* index (possibly out of range) of the point of position p at coordinate c
IdxOf(p, c) == CASE p = "center" -> (c - 1) \div 2 [] p = "left" -> c \div 2 [] p = "right" -> (c - 2) \div 2
                 [] p = "inner" -> (c - 2) \div 2 [] p = "outer" -> c \div 2

\* the 8 shifts the library defines: centre <-> each face position
ValidShift(from, to) == (from = "center" /\ to \in FacePos) \/ (from \in FacePos /\ to = "center")

\* documented default shift: centre goes to the first present of left, right, outer, inner;
\* every face position goes to centre.  `present` is the set of positions the axis has.
FallbackOrder == <<"left", "right", "outer", "inner">>
RECURSIVE FirstPresent(_, _, _)
FirstPresent(order, present, k) ==
  IF k > Len(order) THEN "none" ELSE IF order[k] \in present THEN order[k] ELSE FirstPresent(order, present, k + 1)
DefaultShift(present, from) ==
  IF from = "center" THEN FirstPresent(FallbackOrder, present, 1)
  ELSE IF "center" \in present THEN "center" ELSE "none"
=============================================================================
