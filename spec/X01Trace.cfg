SPECIFICATION Spec
CHECK_DEADLOCK FALSE
