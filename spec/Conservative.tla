---------------------------- MODULE Conservative ----------------------------
(* C07.  Overlap weights of the conservative transform, as exact rationals.    *)
(* A cell has target values t1, t2 on its two bounds; a bin is [h1, h2] with    *)
(* h1 < h2.  Weight of the cell in the bin = overlap / cell extent.  A cell of  *)
(* zero extent (t1 = t2) belongs to exactly one bin that contains it: on an     *)
(* interior bin edge either neighbour is admissible (the rule is left open),    *)
(* beyond the span it is lost.                                                   *)
EXTENDS Integers, Sequences, FiniteSets

Min2(a, b) == IF a < b THEN a ELSE b
Max2(a, b) == IF a < b THEN b ELSE a
RatEq(a, b) == a[1] * b[2] = b[1] * a[2]

\* exact weight of a cell of positive extent
OverlapW(t1, t2, h1, h2) ==
  LET lo == Min2(t1, t2)  hi == Max2(t1, t2)
      ov == Min2(hi, h2) - Max2(lo, h1)
  IN <<IF ov > 0 THEN ov ELSE 0, hi - lo>>

\* bins: strictly increasing sequence of m+1 edges
NBins(bins) == Len(bins) - 1
InSpan(t, bins) == bins[1] <= t /\ t <= bins[Len(bins)]

\* ---- the kernel as coded (closed-interval overlap test, homogeneous-cell branch); HalfOpen selects the
\* repaired homogeneous-cell rule (upper bin at an interior edge, last bin closed)
KernelW(t1, t2, h1, h2, isLast, HalfOpen) ==
  LET lo == Min2(t1, t2)  hi == Max2(t1, t2) IN
  IF h1 > hi \/ h2 < lo THEN <<0, 1>>
  ELSE IF hi = lo THEN (IF ~HalfOpen \/ lo < h2 \/ isLast THEN <<1, 1>> ELSE <<0, 1>>)
  ELSE <<Min2(hi, h2) - Max2(lo, h1), hi - lo>>

\* ---- admissible observed weights W[j] (j = 1..m) for one cell
CellOK(t1, t2, bins, W) ==
  LET m == NBins(bins) IN
  IF t1 # t2 THEN \A j \in 1..m : RatEq(W[j], OverlapW(t1, t2, bins[j], bins[j + 1]))
  ELSE /\ \A j \in 1..m : (W[j][1] = 0 \/ RatEq(W[j], <<1, 1>>))
       /\ \A j \in 1..m : RatEq(W[j], <<1, 1>>) => (bins[j] <= t1 /\ t1 <= bins[j + 1])
       /\ Cardinality({j \in 1..m : RatEq(W[j], <<1, 1>>)}) = (IF InSpan(t1, bins) THEN 1 ELSE 0)

\* sum of rationals with a common positive denominator
RECURSIVE SumNum(_, _)
SumNum(W, j) == IF j > Len(W) THEN 0 ELSE W[j][1] + SumNum(W, j + 1)
=============================================================================
