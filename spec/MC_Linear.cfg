SPECIFICATION Spec
CONSTANTS MaxLen = 3
          T = 4
INVARIANT DirectionFree
INVARIANT ThroughData
INVARIANT Between
INVARIANT Edges
CHECK_DEADLOCK FALSE
