SPECIFICATION Spec
CONSTANTS Kx = 2
          Ky = 1
          N = 2
          Dk = 1
          T = 1
INVARIANT LinksEqual
INVARIANT BlocksEqual
INVARIANT ExpressibleEqual
INVARIANT WindowsEqual
INVARIANT RuleEqual
INVARIANT StatementsHold
CHECK_DEADLOCK FALSE
