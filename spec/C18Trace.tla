------------------------------ MODULE C18Trace ------------------------------
(* Session traces for C18.  A record is one call of a session: digests of every *)
(* argument object and of the grid's settings before and after the call, and    *)
(* the digest of the result (or of the exception class).  The trace spec carries *)
(* the store across the records of a session and the table of reference answers *)
(* (the same call issued first, on fresh objects).                               *)
EXTENDS Integers, Sequences, FiniteSets, Json, IOUtils, TLC
Tr == ndJsonDeserialize(IOEnv.TRACE_FILE)
VARIABLES i, store, session

Verdict(r) ==
  IF r.step > 1 /\ r.session = session /\ r.pre # store THEN "store-changed-between-calls"
  ELSE IF r.post # r.pre THEN "argument-modified"
  ELSE IF r.settings_post # r.settings_pre THEN "grid-settings-modified"
  ELSE IF r.result # r.reference THEN "result-depends-on-history"
  ELSE "ok"
Init == i = 1 /\ store = <<>> /\ session = -1
Next == /\ i <= Len(Tr)
        /\ LET v == Verdict(Tr[i]) IN IF v = "ok" THEN TRUE ELSE PrintT(<<"V", Tr[i].id, v>>)
        /\ store' = Tr[i].post /\ session' = Tr[i].session
        /\ i' = i + 1
Spec == Init /\ [][Next]_<<i, store, session>>
=============================================================================
