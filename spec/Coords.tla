------------------------------- MODULE Coords -------------------------------
(* C19.  Which coordinates a result carries.  A coordinate of the grid dataset  *)
(* is [name, dims]; it is a dimension coordinate when it is 1-D and named after *)
(* its dimension.  The result carries exactly the dataset's coordinates that    *)
(* fit its dimensions - all of them with keep_coords, only the dimension        *)
(* coordinates without - hence the target position's coordinate for the new     *)
(* dimension and nothing defined on the abandoned one.                          *)
EXTENDS Arr
IsDimCoord(c) == Len(c.dims) = 1 /\ c.name = c.dims[1]
Fits(c, outdims) == SeqToSet(c.dims) \subseteq SeqToSet(outdims)
ExpectedCoordNames(dscoords, outdims, keep) ==
  {dscoords[k].name : k \in {j \in DOMAIN dscoords : Fits(dscoords[j], outdims) /\ (keep \/ IsDimCoord(dscoords[j]))}}
=============================================================================
