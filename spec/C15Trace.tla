------------------------------ MODULE C15Trace ------------------------------
(* Trace validation for C15: what the real parser, printer, equivalence test,   *)
(* type-hint reader and operator lookup do with a text, against the grammar.    *)
EXTENDS Signature, Positions, Json, IOUtils, TLC
Tr == ndJsonDeserialize(IOEnv.TRACE_FILE)
VARIABLE i

\* recorded structures use sequences <<name chars, position chars>> exactly like Parse's
VParse(r) ==
  LET P == Parse(r.text) IN
  IF P[1] THEN
       IF r.out.k # "parsed" THEN "rejected-wellformed-text"
       ELSE IF r.out.ins # P[2] \/ r.out.outs # P[3] THEN "parsed-structure"
       ELSE IF r.out.printed # NoSpaces(r.text) THEN "print-back"
       ELSE IF ~r.out.reparsed_equal THEN "reparse"
       ELSE "ok"
  ELSE IF MustReject(r.text) THEN (IF r.out.k = "parsed" THEN "accepted-malformed-text" ELSE "ok")
  ELSE "ok"                                                   \* neither well-formed nor in a listed class

VEquiv(r) ==
  LET A == Parse(r.a)  B == Parse(r.b) IN
  IF ~A[1] \/ ~B[1] THEN "driver-text-not-wellformed"
  ELSE IF r.out.k # "bool" THEN "raised-on-valid-call"
  ELSE IF r.out.v # Equivalent(A[2], A[3], B[2], B[3]) THEN
          (IF r.out.v THEN "equivalent-but-not-a-renaming" ELSE "renaming-not-equivalent")
  ELSE "ok"

VHints(r) == IF r.out.k # "parsed" THEN "rejected-valid-hints"
             ELSE IF r.out.ins # r.ins \/ r.out.outs # r.outs THEN "hints-structure" ELSE "ok"

\* the predefined operation of each of the eight defined shifts is found for an axis of any name
\* (what happens for other shifts is C20's subject)
VSelect(r) == IF ValidShift(r.from, r.to) /\ r.out.k # "found" THEN "operation-not-found" ELSE "ok"

Verdict(r) == CASE r.ev = "Parse" -> VParse(r) [] r.ev = "Equiv" -> VEquiv(r)
                [] r.ev = "Hints" -> VHints(r) [] r.ev = "Select" -> VSelect(r) [] OTHER -> "unknown-event"
Init == i = 1
Next == /\ i <= Len(Tr)
        /\ LET v == Verdict(Tr[i]) IN IF v = "ok" THEN TRUE ELSE PrintT(<<"V", Tr[i].id, v>>)
        /\ i' = i + 1
Spec == Init /\ [][Next]_i
=============================================================================
