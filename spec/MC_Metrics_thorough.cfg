SPECIFICATION Spec
CONSTANT MaxCalls = 4
INVARIANT SlotHoldsLatest
INVARIANT AtMostOne
INVARIANT RefusalKeeps
INVARIANT BatchingOK
CHECK_DEADLOCK FALSE
