SPECIFICATION Spec
CONSTANTS Kx = 2
          Ky = 1
          N = 2
          W = 2
INVARIANT Recip
INVARIANT HaloOK
INVARIANT Symmetric
INVARIANT VectorRuleOK
CHECK_DEADLOCK FALSE
