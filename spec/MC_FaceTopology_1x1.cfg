SPECIFICATION Spec
CONSTANTS Kx = 1
          Ky = 1
          N = 3
          W = 3
INVARIANT Recip
INVARIANT HaloOK
INVARIANT Symmetric
INVARIANT VectorRuleOK
CHECK_DEADLOCK FALSE
