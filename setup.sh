#!/bin/sh
# Verifies the toolchain; nothing is compiled or cached (every check reads /repo's working tree when it runs).
set -e
cd "$(dirname "$0")"
java -version 2>&1 | head -1
test -f /opt/veriftools/tla/tla2tools.jar
for f in spec/*.tla; do
  out=$(cd spec && java -cp /opt/veriftools/tla/tla2tools.jar:/opt/veriftools/tla/CommunityModules-deps.jar tla2sany.SANY "$(basename "$f")" 2>&1) || { echo "$out"; exit 1; }
  echo "$out" | grep -q -i -E "^(\*\*\* )?(Parse|Semantic) error|Fatal|Could not" && { echo "SANY failed on $f"; echo "$out"; exit 1; }
done
echo "SANY: all modules parse"
/venv/bin/python -c "import sys; sys.path.insert(0,'/verif/harness/numba_shim'); sys.path.insert(0,'/repo'); import xgcm, xarray, dask; print('xgcm from', xgcm.__file__)"
# self-check of the numba stand-in: upstream's transform tests (those needing `distributed` are deselected)
(cd /repo && PYTHONPATH=/repo:/verif/harness/numba_shim /venv/bin/python -m pytest -q -p no:cacheprovider -x xgcm/test/test_transform.py -k "not distributed" 2>&1 | tail -1)
echo setup ok
